(* Model/StrFns.v — executable model of the string builtins of rsjsonnet
   (rsjsonnet-lang/src/program/eval/stdlib.rs do_std_length / codepoint / char /
   substr / find_substr / starts_with / ends_with / strip_chars / lstrip_chars /
   rstrip_chars / split / split_limit / split_limit_r / str_replace / trim /
   ascii_upper / ascii_lower / string_chars / map / flat_map / slice / join /
   reverse; eval/mod.rs State::Index; eval/expr.rs do_slice / do_slice_string /
   get_slice_range; the try_to_ helpers of float.rs), as coded.

   A string is the list of its Unicode code points ([list N]).  Numbers are
   binary64 ([Base.F64]); every `as usize` / `as u32` is Rust's saturating
   float->int cast; every usize subtraction / byte slice that could panic is a
   [Panic] outcome.

   Rust std's [str::find / split / splitn / rsplitn / replace / trim_matches /
   strip_prefix / strip_suffix / starts_with / ends_with / to_ascii_*case] are
   specified by their documented behaviour on code points ([str_find],
   [split_first], [rsplit_first] ...): modelled, not verified.  Because UTF-8
   is self-synchronising, a byte-level substring match of two well-formed
   strings is a code-point-level match and conversely; that fact is assumed
   here too.  The one place where the Rust code itself does byte arithmetic
   (do_std_find_substr slices [after] at the UTF-8 length of the first pattern
   character) is modelled with [utf8_len]/[byte_skip]. *)
From RJ Require Import Base.Outcome Base.F64.
From Coq Require Import Floats.SpecFloat.
Local Open Scope N_scope.
Local Open Scope outcome_scope.

Definition str := list N.

(* ------------------------------------------------------------------ values *)

Inductive value :=
| VNull
| VBool (b : bool)
| VNum (x : f64)
| VStr (s : str)
| VArr (l : list value)
| VObj                   (* the literal {} (only used to provoke type errors) *)
| VFun (tag : N).        (* one of the one-parameter functions of [apply_fun] *)

Inductive err :=
| EArgType (arg_index : N)          (* EvalErrorKind::InvalidStdFuncArgType { arg_index, .. } *)
| EOther                            (* EvalErrorKind::Other { message } *)
| EStringIndexIsNotNumber
| EArrayIndexIsNotNumber
| ENumericIndexIsNotValid
| ENumericIndexOutOfRange
| ESliceIndexOrStepIsNotNumber
| EInvalidSlicedType
| EInvalidIndexedType
| ENotModelled.                     (* outside the modelled fragment; never generated *)

Notation res A := (outcome A err).

(* ------------------------------------------------------------ UTF-8 length *)

Definition cp_utf8_len (c : N) : N :=
  if c <? 0x80 then 1 else if c <? 0x800 then 2 else if c <? 0x10000 then 3 else 4.

Fixpoint utf8_len (s : str) : N :=
  match s with
  | [] => 0
  | c :: r => cp_utf8_len c + utf8_len r
  end.

(* char::from_u32 succeeds exactly on scalar values *)
Definition is_scalar (c : N) : bool :=
  (c <? 0xD800) || ((0xDFFF <? c) && (c <? 0x110000)).

(* &s[k..] for a byte offset k: None when k is inside a character or past the end
   (Rust panics there) *)
Fixpoint byte_skip (k : N) (s : str) : option str :=
  if k =? 0 then Some s
  else match s with
       | [] => None
       | c :: r => if cp_utf8_len c <=? k then byte_skip (k - cp_utf8_len c) r else None
       end.

(* ------------------------------------------------- number conversions *)

Definition usize_max : N := 2 ^ 64 - 1.
Definition u32_max : N := 2 ^ 32 - 1.

(* truncation toward zero of a finite double; the value of F64.f_trunc_Z, computed by
   shifting (Proofs: trunc_Z_eq) *)
Definition trunc_Z (x : f64) : option Z :=
  match x with
  | S754_zero _ => Some 0%Z
  | S754_finite s m e =>
      let v := if (0 <=? e)%Z then Z.shiftl (Z.pos m) e else Z.shiftr (Z.pos m) (- e) in
      Some (if s then (- v)%Z else v)
  | _ => None
  end.

(* Rust `x as uN`: NaN -> 0, negative -> 0, too large -> MAX, else truncation *)
Definition sat_cast (maxv : N) (x : f64) : N :=
  match x with
  | S754_finite false _ _ =>
      match trunc_Z x with
      | Some z => N.min (Z.to_N z) maxv
      | None => 0
      end
  | S754_infinity false => maxv
  | _ => 0
  end.

(* f64::trunc *)
Definition f_trunc (x : f64) : f64 :=
  match x with
  | S754_finite s m e =>
      if (0 <=? e)%Z then x
      else match trunc_Z x with
           | Some z => if (z =? 0)%Z then S754_zero s else f_of_Z z
           | None => x
           end
  | _ => x
  end.

Definition f_ne (a b : f64) : bool := negb (f_eqb a b).      (* Rust != on f64 *)
Definition f_neg_p (x : f64) : bool := f_ltb x f_zero.       (* x < 0.0 *)

(* float.rs *)
Definition try_to_u32 (x : f64) : option N :=
  let x := f_trunc x in
  let i := sat_cast u32_max x in
  if f_eqb (f_of_N i) x then Some i else None.

Definition try_to_usize (x : f64) : option N :=
  let x := f_trunc x in
  let i := sat_cast usize_max x in
  if f_eqb (f_of_N i) x then Some i else None.

Definition try_to_usize_exact (x : f64) : option N :=
  let i := sat_cast usize_max x in
  if f_eqb (f_of_N i) x then Some i else None.

(* the recurring test `!x.is_finite() || x.trunc() != x` *)
Definition not_integer (x : f64) : bool :=
  negb (f_is_finite x) || f_ne (f_trunc x) x.

(* ------------------------------------------------- list helpers on N *)

Definition lenN {A} (l : list A) : N := N.of_nat (length l).

(* Iterator::skip / take with a usize count that may be astronomically large *)
Definition skipN {A} (n : N) (l : list A) : list A :=
  if lenN l <=? n then [] else skipn (N.to_nat n) l.
Definition takeN {A} (n : N) (l : list A) : list A :=
  if lenN l <=? n then l else firstn (N.to_nat n) l.
Definition nthN {A} (l : list A) (i : N) : option A :=
  if lenN l <=? i then None else nth_error l (N.to_nat i).

(* Iterator::step_by(step), step >= 1: yields elements 0, step, 2*step, ... *)
Fixpoint step_by_aux {A} (step cnt : N) (l : list A) : list A :=
  match l with
  | [] => []
  | x :: r => if cnt =? 0 then x :: step_by_aux step (step - 1) r
              else step_by_aux step (cnt - 1) r
  end.
Definition step_by {A} (step : N) (l : list A) : list A := step_by_aux step 0 l.

Fixpoint memN (c : N) (cs : list N) : bool :=
  match cs with
  | [] => false
  | d :: r => (c =? d) || memN c r
  end.

(* ------------------------------------- Rust std string searching (documented) *)

(* str::starts_with(&str) *)
Fixpoint is_prefix (p s : str) : bool :=
  match p, s with
  | [], _ => true
  | a :: p', b :: s' => (a =? b) && is_prefix p' s'
  | _ :: _, [] => false
  end.

(* str::ends_with(&str) *)
Definition is_suffix (p s : str) : bool := is_prefix (rev p) (rev s).

(* str::find(&str) as a character index: the least i with p a prefix of s[i..] *)
Fixpoint str_find (p s : str) : option nat :=
  if is_prefix p s then Some O
  else match s with
       | [] => None
       | _ :: r => match str_find p r with Some i => Some (S i) | None => None end
       end.

(* the first match of p in s: (text before it, text after it) *)
Fixpoint split_first (p s : str) : option (str * str) :=
  if is_prefix p s then Some ([], skipn (length p) s)
  else match s with
       | [] => None
       | c :: r => match split_first p r with
                   | Some (b, a) => Some (c :: b, a)
                   | None => None
                   end
       end.

(* the last match of p in s (reverse searcher): (text before it, text after it) *)
Fixpoint rsplit_first (p s : str) : option (str * str) :=
  match s with
  | [] => if is_prefix p [] then Some ([], []) else None
  | c :: r => match rsplit_first p r with
              | Some (b, a) => Some (c :: b, a)
              | None => if is_prefix p s then Some ([], skipn (length p) s) else None
              end
  end.

(* str::split(&str), pattern non-empty: successive non-overlapping first matches *)
Fixpoint split_fuel (fuel : nat) (p s : str) : res (list str) :=
  match fuel with
  | O => OutOfFuel
  | S f =>
      match split_first p s with
      | None => Ok [s]
      | Some (b, a) => do rest <- split_fuel f p a; Ok (b :: rest)
      end
  end.
Definition split (s p : str) : res (list str) := split_fuel (S (length s)) p s.

(* str::splitn(n, &str): at most n items, the last one is the unsplit remainder *)
Fixpoint splitn_fuel (fuel : nat) (n : N) (p s : str) : res (list str) :=
  match fuel with
  | O => OutOfFuel
  | S f =>
      if n =? 0 then Ok []
      else if n =? 1 then Ok [s]
      else match split_first p s with
           | None => Ok [s]
           | Some (b, a) => do rest <- splitn_fuel f (n - 1) p a; Ok (b :: rest)
           end
  end.
Definition splitn (n : N) (s p : str) : res (list str) := splitn_fuel (S (length s)) n p s.

(* str::rsplitn(n, &str): the same from the end; items come out right to left *)
Fixpoint rsplitn_fuel (fuel : nat) (n : N) (p s : str) : res (list str) :=
  match fuel with
  | O => OutOfFuel
  | S f =>
      if n =? 0 then Ok []
      else if n =? 1 then Ok [s]
      else match rsplit_first p s with
           | None => Ok [s]
           | Some (b, a) => do rest <- rsplitn_fuel f (n - 1) p b; Ok (a :: rest)
           end
  end.
Definition rsplitn (n : N) (s p : str) : res (list str) := rsplitn_fuel (S (length s)) n p s.

(* str::replace(from, to): non-overlapping matches left to right; an empty
   pattern matches at every character boundary *)
Fixpoint replace_fuel (fuel : nat) (from to s : str) : res str :=
  match fuel with
  | O => OutOfFuel
  | S f =>
      match split_first from s with
      | None => Ok s
      | Some (b, a) => do r <- replace_fuel f from to a; Ok (b ++ to ++ r)
      end
  end.
Fixpoint replace_empty (to s : str) : str :=
  match s with
  | [] => to
  | c :: r => to ++ c :: replace_empty to r
  end.
Definition str_replace (s from to : str) : res str :=
  match from with
  | [] => Ok (replace_empty to s)
  | _ => replace_fuel (S (length s)) from to s
  end.

(* `while let Some(t) = res.strip_prefix(chars) { res = t }` *)
Fixpoint lstrip (cs s : str) : str :=
  match s with
  | [] => []
  | c :: r => if memN c cs then lstrip cs r else s
  end.

(* `while let Some(t) = res.strip_suffix(chars) { res = t }` *)
Fixpoint rstrip (cs s : str) : str :=
  match s with
  | [] => []
  | c :: r => match rstrip cs r with
              | [] => if memN c cs then [] else [c]
              | r' => c :: r'
              end
  end.

Definition strip (cs s : str) : str := rstrip cs (lstrip cs s).

(* std.trim: trim_matches on this set *)
Definition trim_set : str := [0x09; 0x0A; 0x0C; 0x0D; 0x20; 0x85; 0xA0].

Definition ascii_upper_cp (c : N) : N := if (0x61 <=? c) && (c <=? 0x7A) then c - 0x20 else c.
Definition ascii_lower_cp (c : N) : N := if (0x41 <=? c) && (c <=? 0x5A) then c + 0x20 else c.

(* the pure joining function the identities talk about *)
Fixpoint join (sep : str) (l : list str) : str :=
  match l with
  | [] => []
  | [a] => a
  | a :: r => a ++ sep ++ join sep r
  end.

(* ------------------------------------------------------------- builtins *)

Definition num_of_len {A} (l : list A) : value := VNum (f_of_N (lenN l)).
Definition char_val (c : N) : value := VStr [c].            (* ValueData::from_char *)

Definition want_str (v : value) (idx : N) : res str :=
  match v with VStr s => Ok s | _ => Err (EArgType idx) end.
Definition want_num (v : value) (idx : N) : res f64 :=
  match v with VNum x => Ok x | _ => Err (EArgType idx) end.
Definition want_arr (v : value) (idx : N) : res (list value) :=
  match v with VArr l => Ok l | _ => Err (EArgType idx) end.
Definition want_fun (v : value) (idx : N) : res N :=
  match v with VFun t => Ok t | _ => Err (EArgType idx) end.
Definition want_null_or_num (v : value) (idx : N) : res (option f64) :=
  match v with VNull => Ok None | VNum x => Ok (Some x) | _ => Err (EArgType idx) end.

(* do_std_length *)
Definition std_length (v : value) : res value :=
  match v with
  | VStr s => Ok (num_of_len s)
  | VArr l => Ok (num_of_len l)
  | VObj => Ok (VNum (f_of_N 0))
  | VFun _ => Ok (VNum (f_of_N 1))
  | _ => Err (EArgType 0)
  end.

(* do_std_codepoint *)
Definition std_codepoint (v : value) : res value :=
  do s <- want_str v 0;
  match s with
  | [c] => Ok (VNum (f_of_N c))
  | _ => Err EOther
  end.

(* do_std_char *)
Definition std_char (v : value) : res value :=
  do x <- want_num v 0;
  let x := f_trunc x in
  match try_to_u32 x with
  | Some c => if is_scalar c then Ok (char_val c) else Err EOther
  | None => Err EOther
  end.

(* do_std_substr *)
Definition substr_cps (s : str) (from len : N) : str := takeN len (skipN from s).

Definition std_substr (vs vfrom vlen : value) : res value :=
  do s <- want_str vs 0;
  do from <- want_num vfrom 1;
  do len <- want_num vlen 2;
  if not_integer from || f_neg_p from then Err EOther else
  let from := sat_cast usize_max from in
  if not_integer len || f_neg_p len then Err EOther else
  let len := sat_cast usize_max len in
  Ok (VStr (substr_cps s from len)).

(* do_std_find_substr: the loop, for a non-empty pattern whose first character is c0 *)
Fixpoint find_substr_loop (fuel : nat) (pat : str) (c0 : N) (rem : str) (chr_index : N)
  : res (list N) :=
  match fuel with
  | O => OutOfFuel
  | S f =>
      match str_find pat rem with
      | None => Ok []
      | Some i =>
          (* (before, after) = rem.split_at(i) *)
          let after := skipn i rem in
          let match_pos := chr_index + N.of_nat i in
          match byte_skip (cp_utf8_len c0) after with
          | None => Panic "stdlib.rs:do_std_find_substr:byte slice not on a char boundary"
          | Some rem' =>
              do rest <- find_substr_loop f pat c0 rem' (match_pos + 1);
              Ok (match_pos :: rest)
          end
      end
  end.

Definition find_substr_cps (pat s : str) : res (list N) :=
  match pat with
  | [] => Ok []
  | c0 :: _ => find_substr_loop (S (length s)) pat c0 s 0
  end.

Definition std_find_substr (vpat vs : value) : res value :=
  do pat <- want_str vpat 0;
  do s <- want_str vs 1;
  do l <- find_substr_cps pat s;
  Ok (VArr (map (fun i => VNum (f_of_N i)) l)).

Definition std_starts_with (va vb : value) : res value :=
  do a <- want_str va 0; do b <- want_str vb 1; Ok (VBool (is_prefix b a)).
Definition std_ends_with (va vb : value) : res value :=
  do a <- want_str va 0; do b <- want_str vb 1; Ok (VBool (is_suffix b a)).

Definition std_strip_chars (vs vc : value) : res value :=
  do s <- want_str vs 0; do cs <- want_str vc 1; Ok (VStr (strip cs s)).
Definition std_lstrip_chars (vs vc : value) : res value :=
  do s <- want_str vs 0; do cs <- want_str vc 1; Ok (VStr (lstrip cs s)).
Definition std_rstrip_chars (vs vc : value) : res value :=
  do s <- want_str vs 0; do cs <- want_str vc 1; Ok (VStr (rstrip cs s)).

Definition strs (l : list str) : value := VArr (map VStr l).

(* do_std_split *)
Definition std_split (vs vc : value) : res value :=
  do s <- want_str vs 0;
  do c <- want_str vc 1;
  match c with
  | [] => Err EOther
  | _ => do l <- split s c; Ok (strs l)
  end.

(* the `maxsplits` decoding of splitLimit and splitLimitR:
   Err = the two "is not ..." errors; Ok None = unlimited (str::split); Ok (Some n) = splitn(n) / rsplitn(n) *)
Definition checked_limit (m : f64) : option N :=     (* try_to_usize(m).and_then(|v| v.checked_add(1)) *)
  match try_to_usize m with
  | Some v => if v =? usize_max then None else Some (v + 1)
  | None => None
  end.

Definition decode_maxsplits (m : f64) : res (option N) :=
  if not_integer m then Err EOther
  else if f_neg_p m then
    (if f_ne m (f_of_Z (-1)) then Err EOther else Ok None)
  else Ok (checked_limit m).

(* splitLimitR: a limit that does not fit in usize still splits from the end (.unwrap_or(usize::MAX)) *)
Definition decode_maxsplits_r (m : f64) : res (option N) :=
  if not_integer m then Err EOther
  else if f_neg_p m then
    (if f_ne m (f_of_Z (-1)) then Err EOther else Ok None)
  else Ok (Some (match checked_limit m with Some n => n | None => usize_max end)).

Definition split_limit_cps (s c : str) (lim : option N) : res (list str) :=
  match lim with
  | Some n => splitn n s c
  | None => split s c
  end.

Definition split_limit_r_cps (s c : str) (lim : option N) : res (list str) :=
  match lim with
  | Some n => do l <- rsplitn n s c; Ok (rev l)
  | None => split s c
  end.

Definition std_split_limit (vs vc vm : value) : res value :=
  do s <- want_str vs 0;
  do c <- want_str vc 1;
  do m <- want_num vm 2;
  match c with
  | [] => Err EOther
  | _ => do lim <- decode_maxsplits m;
         do l <- split_limit_cps s c lim; Ok (strs l)
  end.

Definition std_split_limit_r (vs vc vm : value) : res value :=
  do s <- want_str vs 0;
  do c <- want_str vc 1;
  do m <- want_num vm 2;
  match c with
  | [] => Err EOther
  | _ => do lim <- decode_maxsplits_r m;
         do l <- split_limit_r_cps s c lim; Ok (strs l)
  end.

Definition std_str_replace (vs vf vt : value) : res value :=
  do s <- want_str vs 0; do f <- want_str vf 1; do t <- want_str vt 2;
  do r <- str_replace s f t; Ok (VStr r).

Definition std_trim (vs : value) : res value :=
  do s <- want_str vs 0; Ok (VStr (strip trim_set s)).

Definition std_ascii_upper (vs : value) : res value :=
  do s <- want_str vs 0; Ok (VStr (map ascii_upper_cp s)).
Definition std_ascii_lower (vs : value) : res value :=
  do s <- want_str vs 0; Ok (VStr (map ascii_lower_cp s)).

Definition string_chars (s : str) : list value := map char_val s.
Definition std_string_chars (vs : value) : res value :=
  do s <- want_str vs 0; Ok (VArr (string_chars s)).

(* do_std_reverse *)
Definition std_reverse (v : value) : res value :=
  match v with
  | VStr s => Ok (VArr (map char_val (rev s)))
  | VArr l => Ok (VArr (rev l))
  | _ => Err (EArgType 0)
  end.

(* do_std_join with its two item loops (do_std_join_str_item / _array_item) *)
Fixpoint join_str_items (sep : str) (items : list value) (first : bool) (acc : str) : res str :=
  match items with
  | [] => Ok acc
  | VNull :: r => join_str_items sep r first acc
  | VStr s :: r => join_str_items sep r false (if first then acc ++ s else acc ++ sep ++ s)
  | _ :: _ => Err EOther
  end.

Fixpoint join_arr_items (sep : list value) (items : list value) (first : bool) (acc : list value)
  : res (list value) :=
  match items with
  | [] => Ok acc
  | VNull :: r => join_arr_items sep r first acc
  | VArr a :: r => join_arr_items sep r false (if first then acc ++ a else acc ++ sep ++ a)
  | _ :: _ => Err EOther
  end.

Definition std_join (vsep varr : value) : res value :=
  do items <- want_arr varr 1;
  match vsep with
  | VStr sep => do r <- join_str_items sep items true []; Ok (VStr r)
  | VArr sep => do r <- join_arr_items sep items true []; Ok (VArr r)
  | _ => Err (EArgType 0)
  end.

(* ---- the small family of functions std.map / std.flatMap are exercised with ----
   tag 0: function(c) c            tag 1: function(c) c + c
   tag 2: function(c) std.codepoint(c)     tag 3: function(c) std.length(c)
   tag 4: function(c) null         tag 5: function(c) [c]
   tag 6: function(c) if c == "a" then null else c + "-"          (c is always a string here) *)
Definition apply_fun (tag : N) (c : str) : res value :=
  match tag with
  | 0 => Ok (VStr c)
  | 1 => Ok (VStr (c ++ c))
  | 2 => std_codepoint (VStr c)
  | 3 => std_length (VStr c)
  | 4 => Ok VNull
  | 5 => Ok (VArr [VStr c])
  | 6 => match c with
         | [0x61] => Ok VNull
         | _ => Ok (VStr (c ++ [0x2D]))
         end
  | _ => Err ENotModelled
  end.

Fixpoint map_res {A B} (f : A -> res B) (l : list A) : res (list B) :=
  match l with
  | [] => Ok []
  | x :: r => do y <- f x; do ys <- map_res f r; Ok (y :: ys)
  end.

(* do_std_map on a string: one call per character, the argument is the
   one-character string *)
Definition map_str (f : str -> res value) (s : str) : res (list value) :=
  map_res (fun c => f [c]) s.

(* do_std_flat_map on a string: results are concatenated, null contributes nothing *)
Fixpoint flat_map_str (f : str -> res value) (s : str) (acc : str) : res str :=
  match s with
  | [] => Ok acc
  | c :: r =>
      do v <- f [c];
      match v with
      | VNull => flat_map_str f r acc
      | VStr t => flat_map_str f r (acc ++ t)
      | _ => Err EOther
      end
  end.

Definition std_map (vf varr : value) : res value :=
  do tag <- want_fun vf 0;
  match varr with
  | VStr s => do l <- map_str (apply_fun tag) s; Ok (VArr l)
  | VArr _ => Err ENotModelled
  | _ => Err (EArgType 1)
  end.

Definition std_flat_map (vf varr : value) : res value :=
  do tag <- want_fun vf 0;
  match varr with
  | VStr s => do r <- flat_map_str (apply_fun tag) s []; Ok (VStr r)
  | VArr _ => Err ENotModelled
  | _ => Err (EArgType 1)
  end.

(* ------------------------------------------------------- index and slice *)

(* eval/mod.rs State::Index on a string / an array *)
Definition index_value (target idx : value) : res value :=
  match target with
  | VStr s =>
      match idx with
      | VNum x =>
          match try_to_usize_exact x with
          | None => Err ENumericIndexIsNotValid
          | Some i => match nthN s i with
                      | Some c => Ok (char_val c)
                      | None => Err ENumericIndexOutOfRange
                      end
          end
      | _ => Err EStringIndexIsNotNumber
      end
  | VArr l =>
      match idx with
      | VNum x =>
          match try_to_usize_exact x with
          | None => Err ENumericIndexIsNotValid
          | Some i => match nthN l i with
                      | Some v => Ok v
                      | None => Err ENumericIndexOutOfRange
                      end
          end
      | _ => Err EArrayIndexIsNotNumber
      end
  | VObj => Err ENotModelled
  | _ => Err EInvalidIndexedType
  end.

(* eval/expr.rs get_slice_range *)
Definition get_slice_range (len : N) (start end_ step : option f64) : res (N * N * N) :=
  do start <- match start with
              | Some x =>
                  if not_integer x then Err EOther
                  else if f_neg_p x then Ok (len - sat_cast usize_max (f_neg x))   (* saturating_sub *)
                  else Ok (sat_cast usize_max x)
              | None => Ok 0
              end;
  do end_ <- match end_ with
             | Some x =>
                 if not_integer x then Err EOther
                 else let e := if f_neg_p x then len - sat_cast usize_max (f_neg x)
                               else sat_cast usize_max x in
                      Ok (N.max e start)
             | None => Ok usize_max
             end;
  do step <- match step with
             | Some x =>
                 if not_integer x || f_ltb x f_one then Err EOther
                 else Ok (sat_cast usize_max x)
             | None => Ok 1
             end;
  Ok (start, end_, step).

(* .skip(start).take(end - start).step_by(step) — shared by do_slice_string and slice_array *)
Definition slice_list {A} (l : list A) (start end_ step : N) : res (list A) :=
  if end_ <? start then Panic "expr.rs:do_slice_string:usize subtraction overflow (end - start)"
  else if step =? 0 then Panic "expr.rs:do_slice_string:step_by(0)"
  else Ok (step_by step (takeN (end_ - start) (skipN start l))).

(* do_slice; [is_func] distinguishes std.slice from the s[a:b:c] syntax *)
Definition do_slice (indexable : value) (start end_ step : option f64) (is_func : bool) : res value :=
  match indexable with
  | VStr s =>
      do (a, b, c) <- get_slice_range (lenN s) start end_ step;
      do r <- slice_list s a b c; Ok (VStr r)
  | VArr l =>
      do (a, b, c) <- get_slice_range (lenN l) start end_ step;
      do r <- slice_list l a b c; Ok (VArr r)
  | _ => if is_func then Err (EArgType 0) else Err EInvalidSlicedType
  end.

(* do_std_slice *)
Definition std_slice (indexable vstart vend vstep : value) : res value :=
  do start <- want_null_or_num vstart 1;
  do end_ <- want_null_or_num vend 2;
  do step <- want_null_or_num vstep 3;
  do_slice indexable start end_ step true.

(* State::Slice (the s[a:b:c] syntax; absent parts are null) *)
Definition slice_part (v : value) : res (option f64) :=
  match v with
  | VNull => Ok None
  | VNum x => Ok (Some x)
  | _ => Err ESliceIndexOrStepIsNotNumber
  end.
Definition slice_expr (indexable vstart vend vstep : value) : res value :=
  do start <- slice_part vstart;
  do end_ <- slice_part vend;
  do step <- slice_part vstep;
  do_slice indexable start end_ step false.

(* --------------------------------------------------------------- dispatcher *)

Inductive fn :=
| FLength | FIndex | FSliceExpr | FSlice | FSubstr | FFindSubstr | FStringChars | FCodepoint
| FChar | FReverse | FSplit | FSplitLimit | FSplitLimitR | FJoin | FStripChars | FLStripChars
| FRStripChars | FStrReplace | FTrim | FAsciiUpper | FAsciiLower | FStartsWith | FEndsWith
| FMap | FFlatMap.

Definition call (f : fn) (args : list value) : res value :=
  match f, args with
  | FLength, [a] => std_length a
  | FIndex, [a; b] => index_value a b
  | FSliceExpr, [a; b; c; d] => slice_expr a b c d
  | FSlice, [a; b; c; d] => std_slice a b c d
  | FSubstr, [a; b; c] => std_substr a b c
  | FFindSubstr, [a; b] => std_find_substr a b
  | FStringChars, [a] => std_string_chars a
  | FCodepoint, [a] => std_codepoint a
  | FChar, [a] => std_char a
  | FReverse, [a] => std_reverse a
  | FSplit, [a; b] => std_split a b
  | FSplitLimit, [a; b; c] => std_split_limit a b c
  | FSplitLimitR, [a; b; c] => std_split_limit_r a b c
  | FJoin, [a; b] => std_join a b
  | FStripChars, [a; b] => std_strip_chars a b
  | FLStripChars, [a; b] => std_lstrip_chars a b
  | FRStripChars, [a; b] => std_rstrip_chars a b
  | FStrReplace, [a; b; c] => std_str_replace a b c
  | FTrim, [a] => std_trim a
  | FAsciiUpper, [a] => std_ascii_upper a
  | FAsciiLower, [a] => std_ascii_lower a
  | FStartsWith, [a; b] => std_starts_with a b
  | FEndsWith, [a; b] => std_ends_with a b
  | FMap, [a; b] => std_map a b
  | FFlatMap, [a; b] => std_flat_map a b
  | _, _ => Err ENotModelled
  end.
