(* Model/Esc.v — executable model of std.escapeStringBash / Dollars / XML /
   Json / Python: stdlib.rs [do_std_escape_string_*] and manifest.rs
   [escape_string_json] (shared by escapeStringPython), as coded.

   [escape_json] takes the upper end of the C0 range that the code escapes as
   \u00XX as a parameter ([c0_hi]): the check reads it from the match arm
   ['\u{0}'..='\u{..}'] of the current source on every run, so the model follows
   the code when that arm is repaired (the C05 check owns that defect). *)
From RJ Require Import Base.Outcome.
Local Open Scope N_scope.

Definition str := list N.

(* 39 = apostrophe, 34 = double quote, 36 = $, 60 = <, 62 = >, 38 = & *)

(* push apostrophe; an apostrophe becomes  apostrophe dquote apostrophe dquote apostrophe ; push apostrophe *)
Fixpoint bash_body (s : str) : str :=
  match s with
  | [] => []
  | c :: r => if c =? 39 then 39 :: 34 :: 39 :: 34 :: 39 :: bash_body r else c :: bash_body r
  end.
Definition escape_bash (s : str) : str := 39 :: bash_body s ++ [39].

(* s.replace: every $ becomes $$ *)
Fixpoint escape_dollars (s : str) : str :=
  match s with
  | [] => []
  | c :: r => if c =? 36 then 36 :: 36 :: escape_dollars r else c :: escape_dollars r
  end.

Definition xml_char (c : N) : str :=
  if c =? 60 then [38; 108; 116; 59]                       (* &lt; *)
  else if c =? 62 then [38; 103; 116; 59]                  (* &gt; *)
  else if c =? 38 then [38; 97; 109; 112; 59]              (* &amp; *)
  else if c =? 34 then [38; 113; 117; 111; 116; 59]        (* &quot; *)
  else if c =? 39 then [38; 97; 112; 111; 115; 59]         (* &apos; *)
  else [c].
Fixpoint escape_xml (s : str) : str :=
  match s with
  | [] => []
  | c :: r => xml_char c ++ escape_xml r
  end.

Definition hex_digit (d : N) : N := if d <? 10 then 48 + d else 87 + d.  (* lower case *)

(* write!(result, backslash u {:04x}, chr as u32) for chr < 0x10000 *)
Definition u_escape (c : N) : str :=
  [92; 117; hex_digit (c / 4096); hex_digit ((c / 256) mod 16); hex_digit ((c / 16) mod 16); hex_digit (c mod 16)].

Definition json_char (c0_hi : N) (c : N) : str :=
  if c =? 8 then [92; 98]
  else if c =? 9 then [92; 116]
  else if c =? 10 then [92; 110]
  else if c =? 12 then [92; 102]
  else if c =? 13 then [92; 114]
  else if c =? 34 then [92; 34]
  else if c =? 92 then [92; 92]
  else if (c <=? c0_hi) || ((127 <=? c) && (c <=? 159)) then u_escape c
  else [c].

Fixpoint json_body (c0_hi : N) (s : str) : str :=
  match s with
  | [] => []
  | c :: r => json_char c0_hi c ++ json_body c0_hi r
  end.

Definition escape_json (c0_hi : N) (s : str) : str := 34 :: json_body c0_hi s ++ [34].
Definition escape_python (c0_hi : N) (s : str) : str := escape_json c0_hi s.

(* reference inverse of the bash quoting, used by the round-trip theorem: a POSIX
   shell word made of single-quoted and double-quoted segments (no expansion characters inside the
   double-quoted segments produced by the escaper) denotes the concatenation of
   the segment contents. *)
Fixpoint bash_unquote (mode : N) (s : str) : option str :=
  (* mode 0 = outside quotes, 1 = inside single quotes, 2 = inside double quotes *)
  match s with
  | [] => if mode =? 0 then Some [] else None
  | c :: r =>
      if mode =? 0 then
        if c =? 39 then bash_unquote 1 r
        else if c =? 34 then bash_unquote 2 r
        else None                      (* the escaper never emits unquoted text *)
      else if mode =? 1 then
        if c =? 39 then bash_unquote 0 r
        else option_map (cons c) (bash_unquote 1 r)
      else
        if c =? 34 then bash_unquote 0 r
        else if (c =? 36) || (c =? 96) || (c =? 92) then None   (* dollar, backquote, backslash are special inside double quotes *)
        else option_map (cons c) (bash_unquote 2 r)
  end.
