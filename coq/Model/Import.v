(* Model/Import.v — executable model of import resolution, the source cache and
   content delivery, as coded in
     rsjsonnet-front/src/session.rs   (SessionInner::find_import, load_real_file,
                                       Callbacks::import / import_str / import_bin)
     rsjsonnet/src/main.rs            (for path in args.jpath.iter().rev() { add_search_path })
     rsjsonnet-lang/src/program/eval/expr.rs (Expr::Import/ImportStr/ImportBin:
                                       callback, then force the returned thunk;
                                       Err(ImportError) -> EvalErrorKind::ImportFailed{span,path})

   Layers:
   1. [Path ops]  Rust std::path on unix as used by the code: Path::is_absolute,
      Path::join (= PathBuf::push), Path::parent (Components::next_back + as_path
      with trim_right).  Paths are strings = [list N] of code points, kept *as
      spelled* (join/parent never normalise), because the spelling is observable
      (std.thisFile, diagnostics) and decides the importer directory.
   2. [World]     Section variables: [fs : path -> node] (what stat/read answer
      for a spelling), [canon : path -> path] (fs::canonicalize on an existing
      path), [prog_of] (what the language front end + evaluator make of a file's
      bytes: a little script of import requests, or a load error).
   3. [Session]   search paths, source_paths (as-loaded spelling per source id),
      source_cache (canonical path -> thunk), the thunk states
      (Pending/InProgress/Done — rsjsonnet-lang's memoisation seen abstractly),
      and a log of observable events.
   4. [Concrete file systems] a flat tree of files / directories / symlinks with
      POSIX path resolution (symlinks, "." "..", ENOTDIR, ELOOP, search
      permission); it instantiates [fs] and [canon] for the correspondence check.
   No proofs here. *)
From RJ Require Import Base.Outcome.
From Coq Require Import Lia.
Local Open Scope N_scope.

Definition str := list N.      (* code points; for file content: bytes *)
Definition path := str.

Fixpoint str_eqb (a b : str) : bool :=
  match a, b with
  | [], [] => true
  | x :: a', y :: b' => (x =? y) && str_eqb a' b'
  | _, _ => false
  end.

Definition SLASH : N := 47.
Definition DOT : N := 46.

Definition nthN {A} (l : list A) (i : N) : option A :=
  if N.of_nat (length l) <=? i then None else nth_error l (N.to_nat i).

Fixpoint set_nth {A} (l : list A) (i : nat) (x : A) : list A :=
  match l, i with
  | [], _ => []
  | _ :: r, O => x :: r
  | y :: r, S j => y :: set_nth r j x
  end.

Definition setN {A} (l : list A) (i : N) (x : A) : list A :=
  if N.of_nat (length l) <=? i then l else set_nth l (N.to_nat i) x.

(* ------------------------------------------------------------------ *)
(* 1. Path operations (std::path, cfg(unix))                           *)

(* Path::is_absolute = has_root on unix *)
Definition is_absolute (p : path) : bool :=
  match p with c :: _ => c =? SLASH | [] => false end.

Definition last_opt {A} (l : list A) : option A :=
  match rev l with x :: _ => Some x | [] => None end.

(* Path::join = clone + PathBuf::push:  an absolute argument replaces the base;
   otherwise a separator is added iff the base is non-empty and does not end in
   one; the argument is appended verbatim (also when empty: "a".join("") = "a/"). *)
Definition join (base p : path) : path :=
  if is_absolute p then p
  else match last_opt base with
       | None => p
       | Some c => if c =? SLASH then base ++ p else base ++ SLASH :: p
       end.

(* Components::include_cur_dir: no root, and the path is "." or starts "./" *)
Definition include_cur_dir (p : path) : bool :=
  match p with
  | [c] => c =? DOT
  | c :: d :: _ => (c =? DOT) && (d =? SLASH)
  | [] => false
  end.

(* Components::len_before_body (no prefix on unix) *)
Definition len_before_body (p : path) : nat :=
  if is_absolute p then 1%nat else if include_cur_dir p then 1%nat else 0%nat.

(* reversed body: split off the last component (up to, not including, the
   nearest separator) — Components::parse_next_component_back *)
Fixpoint span_nosep (l : list N) : list N * list N :=
  match l with
  | [] => ([], [])
  | c :: r => if c =? SLASH then ([], l)
              else let '(a, b) := span_nosep r in (c :: a, b)
  end.

Definition pop_back_rev (rb : list N) : list N * list N :=
  let '(c, r) := span_nosep rb in
  (c, match r with [] => [] | _ :: r' => r' end).

(* parse_single_component: "" and "." are no component in the body; ".." is *)
Definition is_real_comp (c : list N) : bool :=
  match c with
  | [] => false
  | [x] => negb (x =? DOT)
  | _ => true
  end.

(* next_back inside the body: skip non-components, consume one real component;
   answers the remaining reversed body *)
Fixpoint next_back_body (fuel : nat) (rb : list N) : option (list N) :=
  match fuel with
  | O => None
  | S f =>
      match rb with
      | [] => None
      | _ => let '(c, r) := pop_back_rev rb in
             if is_real_comp c then Some r else next_back_body f r
      end
  end.

(* Components::trim_right *)
Fixpoint trim_right (fuel : nat) (rb : list N) : list N :=
  match fuel with
  | O => rb
  | S f =>
      match rb with
      | [] => []
      | _ => let '(c, r) := pop_back_rev rb in
             if is_real_comp c then rb else trim_right f r
      end
  end.

(* Path::parent:  components().next_back() must be Normal/CurDir/ParentDir,
   the answer is the remaining components' as_path() *)
Definition parent (p : path) : option path :=
  let k := len_before_body p in
  let pre := firstn k p in
  let body := skipn k p in
  match next_back_body (S (length body)) (rev body) with
  | Some r => Some (pre ++ rev (trim_right (S (length r)) r))
  | None =>
      if is_absolute p then None            (* last component is RootDir *)
      else if include_cur_dir p then Some []  (* last component is CurDir: "." -> "" *)
      else None                             (* no component at all *)
  end.

(* ------------------------------------------------------------------ *)
(* String::from_utf8_lossy: every maximal ill-formed subpart (Unicode ch. 3,
   Table 3-7 / "U+FFFD substitution of maximal subparts") becomes one U+FFFD *)

Definition FFFD : N := 65533.
Definition in_rng (lo hi b : N) : bool := (lo <=? b) && (b <=? hi).
Definition is_cont (b : N) : bool := in_rng 128 191 b.

Fixpoint lossy (bs : list N) : list N :=
  match bs with
  | [] => []
  | b0 :: r0 =>
      if b0 <? 128 then b0 :: lossy r0
      else if in_rng 194 223 b0 then
        match r0 with
        | b1 :: r1 =>
            if is_cont b1 then ((b0 - 192) * 64 + (b1 - 128)) :: lossy r1
            else FFFD :: lossy r0
        | [] => [FFFD]
        end
      else if in_rng 224 239 b0 then
        let lo := if b0 =? 224 then 160 else 128 in
        let hi := if b0 =? 237 then 159 else 191 in
        match r0 with
        | b1 :: r1 =>
            if in_rng lo hi b1 then
              match r1 with
              | b2 :: r2 =>
                  if is_cont b2
                  then ((b0 - 224) * 4096 + (b1 - 128) * 64 + (b2 - 128)) :: lossy r2
                  else FFFD :: lossy r1
              | [] => [FFFD]
              end
            else FFFD :: lossy r0
        | [] => [FFFD]
        end
      else if in_rng 240 244 b0 then
        let lo := if b0 =? 240 then 144 else 128 in
        let hi := if b0 =? 244 then 143 else 191 in
        match r0 with
        | b1 :: r1 =>
            if in_rng lo hi b1 then
              match r1 with
              | b2 :: r2 =>
                  if is_cont b2 then
                    match r2 with
                    | b3 :: r3 =>
                        if is_cont b3
                        then ((b0 - 240) * 262144 + (b1 - 128) * 4096 + (b2 - 128) * 64 + (b3 - 128)) :: lossy r3
                        else FFFD :: lossy r2
                    | [] => [FFFD]
                    end
                  else FFFD :: lossy r1
              | [] => [FFFD]
              end
            else FFFD :: lossy r0
        | [] => [FFFD]
        end
      else FFFD :: lossy r0
  end.

(* UTF-8 encoding of one scalar value (specification side of the lossy laws) *)
Definition is_scalar (c : N) : bool := (c <? 55296) || ((57343 <? c) && (c <? 1114112)).

Definition utf8_enc1 (c : N) : list N :=
  if c <? 128 then [c]
  else if c <? 2048 then [192 + c / 64; 128 + c mod 64]
  else if c <? 65536 then [224 + c / 4096; 128 + (c / 64) mod 64; 128 + c mod 64]
  else [240 + c / 262144; 128 + (c / 4096) mod 64; 128 + (c / 64) mod 64; 128 + c mod 64].

Definition utf8_enc (s : str) : list N := flat_map utf8_enc1 s.

(* ------------------------------------------------------------------ *)
(* 2./3. The world and the session                                     *)

(* what the OS answers for one spelling of a path *)
Inductive node :=
| File (bytes : list N)     (* stat ok, read ok *)
| Dir                       (* stat ok, read -> EISDIR *)
| Missing                   (* stat -> ENOENT *)
| Unreadable                (* stat ok, read -> EACCES *)
| Inaccessible.             (* stat fails with something else (EACCES/ENOTDIR/ELOOP) *)

Inductive ioerr := IoNotFound | IoIsDir | IoPerm | IoOther.

(* the three import forms, std.thisFile and literals: all an imported file of the
   generated corpora does *)
Inductive iexpr :=
| IImport (p : str)
| IImportStr (p : str)
| IImportBin (p : str)
| IThisFile
| ILit (s : str).

(* a file's program: a tag (its std.trace message), expressions forced while the
   file's own value is computed (strict), and the lazy elements of the array it
   evaluates to *)
Record prog := { p_tag : str; p_strict : list iexpr; p_items : list iexpr }.

(* evaluated element *)
Inductive ev :=
| EvStr (s : str)
| EvBytes (b : list N)
| EvFile (sid : N).         (* the thunk of a loaded file *)

Inductive elem := ELazy (e : iexpr) | EDone (v : ev).

Inductive tstate :=
| TNone                         (* source registered, load_source failed: no thunk *)
| TPending (p : prog)
| TInProgress
| TDone (nstrict : N) (items : list elem).   (* nstrict: positions of the lazy elements continue after the strict ones *)

(* why an import (or the load of the main file) failed: which print_error ran *)
Inductive why :=
| WNotFound                 (* "import .. not found in search path" *)
| WNoFile                   (* "file .. does not exist"  (canonicalize: NotFound) *)
| WCanon                    (* "failed to canonicalize path"  *)
| WRead (e : ioerr)         (* "failed to read" *)
| WLoad.                    (* lexer/parser/analyzer error of the imported file *)

Inductive event :=
| EvRead (p : path)                     (* std::fs::read(p) succeeded *)
| EvLoaded (sid : N) (cp p : path)      (* load_source ok; cache insert under cp *)
| EvEval (sid : N) (tag : str)          (* the file's value is computed: TRACE line *)
| EvMsg (w : why) (p : path).           (* print_error *)

Inductive ierr :=
| ImportFailed (w : why) (importer : path) (pos : N) (p : str)
      (* EvalErrorKind::ImportFailed at the import expression number [pos] of the
         file whose as-loaded path is [importer] *)
| InfiniteRecursion (sid : N)
| MainLoadFailed (w : why).

Record session := {
  s_search : list path;          (* search_paths, in stored order *)
  s_sources : list (path * bool);
    (* per source id: (repr_path in the source manager, has an entry in source_paths).
       Real files: (as-loaded path, true).  Virtual sources (-e "<cmdline>", stdin "<stdin>",
       --ext-code "<ext:v>", --tla-code "<tla:x>"): (that name, false) — load_virt_file does not
       insert into source_paths, so such a source has NO importer directory *)
  s_cache : list (path * N);     (* source_cache: canonical path -> thunk (= source id) *)
  s_thunks : list tstate;        (* per source id *)
  s_log : list event;            (* newest first *)
}.

Definition with_log (st : session) (e : event) : session :=
  {| s_search := s_search st; s_sources := s_sources st; s_cache := s_cache st;
     s_thunks := s_thunks st; s_log := e :: s_log st |}.

Definition with_thunk (st : session) (sid : N) (t : tstate) : session :=
  {| s_search := s_search st; s_sources := s_sources st; s_cache := s_cache st;
     s_thunks := setN (s_thunks st) sid t; s_log := s_log st |}.

Fixpoint assoc_path (k : path) (l : list (path * N)) : option N :=
  match l with
  | [] => None
  | (k', v) :: r => if str_eqb k k' then Some v else assoc_path k r
  end.

Definition new_session (search : list path) : session :=
  {| s_search := search; s_sources := []; s_cache := []; s_thunks := []; s_log := [] |}.

(* main.rs:  for path in args.jpath.iter().rev() { session.add_search_path(path) } *)
Definition cli_session (jpaths : list path) : session := new_session (rev jpaths).

Notation res A := (outcome A ierr).

(* manifested value *)
Inductive value := VStr (s : str) | VBytes (b : list N) | VArr (l : list value).

Section World.
  Variable fs : path -> node.
  Variable canon : path -> path.
  Variable prog_of : list N -> option prog.

  (* Path::exists = fs::metadata(p).is_ok() *)
  Definition exists_ (p : path) : bool :=
    match fs p with Missing | Inaccessible => false | _ => true end.

  Definition canonicalize (p : path) : ioerr + path :=
    match fs p with
    | Missing => inl IoNotFound
    | Inaccessible => inl IoOther
    | _ => inr (canon p)
    end.

  Definition read (p : path) : ioerr + list N :=
    match fs p with
    | File b => inr b
    | Dir => inl IoIsDir
    | Missing => inl IoNotFound
    | Unreadable => inl IoPerm
    | Inaccessible => inl IoOther
    end.

  (* the directory of the importing file: source_paths.get(src).and_then(parent).
     [from] = None for a virtual file (-e, stdin): no entry in source_paths *)
  Definition from_dir (st : session) (from : option N) : option path :=
    match from with
    | None => None
    | Some sid => match nthN (s_sources st) sid with
                  | Some (p, true) => parent p
                  | _ => None
                  end
    end.

  Definition bases (st : session) (from : option N) : list path :=
    match from_dir st from with Some d => [d] | None => [] end ++ s_search st.

  Definition candidates (st : session) (from : option N) (p : str) : list path :=
    map (fun b => join b p) (bases st from).

  (* SessionInner::find_import *)
  Definition find_import (st : session) (from : option N) (p : str) : option path :=
    if is_absolute p then (if exists_ p then Some p else None)
    else find exists_ (candidates st from p).

  (* SessionInner::load_real_file *)
  Definition load_real_file (st : session) (p : path) : session * (why + N) :=
    match canonicalize p with
    | inl IoNotFound => (with_log st (EvMsg WNoFile p), inl WNoFile)
    | inl _ => (with_log st (EvMsg WCanon p), inl WCanon)
    | inr cp =>
        match assoc_path cp (s_cache st) with
        | Some sid => (st, inr sid)
        | None =>
            match read p with
            | inl e => (with_log st (EvMsg (WRead e) p), inl (WRead e))
            | inr data =>
                let sid := N.of_nat (length (s_sources st)) in
                match prog_of data with
                | Some pr =>
                    ({| s_search := s_search st;
                        s_sources := s_sources st ++ [(p, true)];
                        s_cache := (cp, sid) :: s_cache st;
                        s_thunks := s_thunks st ++ [TPending pr];
                        s_log := EvLoaded sid cp p :: EvRead p :: s_log st |}, inr sid)
                | None =>
                    ({| s_search := s_search st;
                        s_sources := s_sources st ++ [(p, true)];
                        s_cache := s_cache st;
                        s_thunks := s_thunks st ++ [TNone];
                        s_log := EvMsg WLoad p :: EvRead p :: s_log st |}, inl WLoad)
                end
            end
        end
    end.

  (* SessionInner::load_virt_file: the source is registered under its display name only
     (no source_paths entry, no cache entry) *)
  Definition load_virt_file (st : session) (repr : path) (data : list N) : session * (why + N) :=
    let sid := N.of_nat (length (s_sources st)) in
    match prog_of data with
    | Some pr =>
        ({| s_search := s_search st;
            s_sources := s_sources st ++ [(repr, false)];
            s_cache := s_cache st;
            s_thunks := s_thunks st ++ [TPending pr];
            s_log := s_log st |}, inr sid)
    | None =>
        ({| s_search := s_search st;
            s_sources := s_sources st ++ [(repr, false)];
            s_cache := s_cache st;
            s_thunks := s_thunks st ++ [TNone];
            s_log := EvMsg WLoad repr :: s_log st |}, inl WLoad)
    end.

  (* Callbacks::import (up to the returned thunk) *)
  Definition cb_import (st : session) (from : option N) (p : str) : session * (why + N) :=
    match find_import st from p with
    | None => (with_log st (EvMsg WNotFound p), inl WNotFound)
    | Some full => load_real_file st full
    end.

  (* Callbacks::import_bin; import_str is the same followed by from_utf8_lossy *)
  Definition cb_import_bin (st : session) (from : option N) (p : str) : session * (why + list N) :=
    match find_import st from p with
    | None => (with_log st (EvMsg WNotFound p), inl WNotFound)
    | Some full =>
        match read full with
        | inl e => (with_log st (EvMsg (WRead e) full), inl (WRead e))
        | inr data => (with_log st (EvRead full), inr data)
        end
    end.

  Definition cb_import_str (st : session) (from : option N) (p : str) : session * (why + str) :=
    match cb_import_bin st from p with
    | (st', inr data) => (st', inr (lossy data))
    | (st', inl w) => (st', inl w)
    end.

  Definition repr_path (st : session) (sid : N) : path :=
    match nthN (s_sources st) sid with Some (p, _) => p | None => [] end.

  (* one expression of file [sid] at position [pos]; [forcef] forces a thunk to
     weak head normal form (Expr::Import pushes State::DoThunk) *)
  Definition eval_expr (forcef : N -> session -> session * res unit)
             (sid pos : N) (e : iexpr) (st : session) : session * res ev :=
    match e with
    | ILit s => (st, Ok (EvStr s))
    | IThisFile => (st, Ok (EvStr (repr_path st sid)))
    | IImportBin p =>
        match cb_import_bin st (Some sid) p with
        | (st', inr b) => (st', Ok (EvBytes b))
        | (st', inl w) => (st', Err (ImportFailed w (repr_path st sid) pos p))
        end
    | IImportStr p =>
        match cb_import_str st (Some sid) p with
        | (st', inr s) => (st', Ok (EvStr s))
        | (st', inl w) => (st', Err (ImportFailed w (repr_path st sid) pos p))
        end
    | IImport p =>
        match cb_import st (Some sid) p with
        | (st', inr sid') =>
            match forcef sid' st' with
            | (st'', Ok _) => (st'', Ok (EvFile sid'))
            | (st'', Err e) => (st'', Err e)
            | (st'', Panic s) => (st'', Panic s)
            | (st'', OutOfFuel) => (st'', OutOfFuel)
            end
        | (st', inl w) => (st', Err (ImportFailed w (repr_path st sid) pos p))
        end
    end.

  (* strict expressions in order; the first failure aborts *)
  Fixpoint eval_strict (forcef : N -> session -> session * res unit)
           (sid pos : N) (es : list iexpr) (st : session) : session * res unit :=
    match es with
    | [] => (st, Ok tt)
    | e :: r =>
        match eval_expr forcef sid pos e st with
        | (st', Ok _) => eval_strict forcef sid (pos + 1) r st'
        | (st', Err x) => (st', Err x)
        | (st', Panic s) => (st', Panic s)
        | (st', OutOfFuel) => (st', OutOfFuel)
        end
    end.

  (* forcing a file's thunk: the memoisation of rsjsonnet-lang seen abstractly.
     [fuel] bounds the nesting depth (the evaluator's stack), not the work *)
  Fixpoint force (fuel : nat) (sid : N) (st : session) : session * res unit :=
    match fuel with
    | O => (st, OutOfFuel)
    | S f =>
        match nthN (s_thunks st) sid with
        | Some (TDone _ _) => (st, Ok tt)
        | Some TInProgress => (st, Err (InfiniteRecursion sid))
        | Some (TPending pr) =>
            match eval_strict (force f) sid 0 (p_strict pr) (with_thunk st sid TInProgress) with
            | (st', Ok _) =>
                (with_thunk (with_log st' (EvEval sid (p_tag pr))) sid
                            (TDone (N.of_nat (length (p_strict pr))) (map ELazy (p_items pr))), Ok tt)
            | (st', Err x) => (st', Err x)
            | (st', Panic s) => (st', Panic s)
            | (st', OutOfFuel) => (st', OutOfFuel)
            end
        | Some TNone | None => (st, Panic "session.rs:force:no thunk for this source")
        end
    end.

  Definition items_of (st : session) (sid : N) : option (N * list elem) :=
    match nthN (s_thunks st) sid with Some (TDone n l) => Some (n, l) | _ => None end.

  (* manifestation of the array a file evaluated to: elements in order; an
     element is evaluated at most once (its thunk is memoised: EDone), then its
     value is manifested, descending into imported files.  [k] counts the
     elements still to visit, [j] is the element index; the element list is
     re-read from the session at every step (a nested manifestation may have
     evaluated elements of this very file when imports are cyclic) *)
  Fixpoint manifest_items (forcef : N -> session -> session * res unit)
           (manifestf : N -> session -> session * res value)
           (sid nstrict : N) (k : nat) (j : N) (acc : list value) (st : session)
    : session * res value :=
    match k with
    | O => (st, Ok (VArr (rev acc)))
    | S k' =>
        match items_of st sid with
        | None => (st, Panic "session.rs:manifest:file value lost")
        | Some (_, items) =>
            match nthN items j with
            | None => (st, Ok (VArr (rev acc)))
            | Some it =>
                let r :=
                  match it with
                  | EDone v => (st, Ok v)
                  | ELazy e =>
                      match eval_expr forcef sid (nstrict + j) e st with
                      | (st', Ok v) =>
                          (match items_of st' sid with
                           | Some (_, items') => with_thunk st' sid (TDone nstrict (setN items' j (EDone v)))
                           | None => st'
                           end, Ok v)
                      | other => other
                      end
                  end in
                match r with
                | (st1, Ok (EvStr s)) => manifest_items forcef manifestf sid nstrict k' (j + 1) (VStr s :: acc) st1
                | (st1, Ok (EvBytes b)) => manifest_items forcef manifestf sid nstrict k' (j + 1) (VBytes b :: acc) st1
                | (st1, Ok (EvFile sid')) =>
                    match manifestf sid' st1 with
                    | (st2, Ok v) => manifest_items forcef manifestf sid nstrict k' (j + 1) (v :: acc) st2
                    | (st2, Err x) => (st2, Err x)
                    | (st2, Panic s) => (st2, Panic s)
                    | (st2, OutOfFuel) => (st2, OutOfFuel)
                    end
                | (st1, Err x) => (st1, Err x)
                | (st1, Panic s) => (st1, Panic s)
                | (st1, OutOfFuel) => (st1, OutOfFuel)
                end
            end
        end
    end.

  Fixpoint manifest (fuel : nat) (sid : N) (st : session) : session * res value :=
    match fuel with
    | O => (st, OutOfFuel)
    | S f =>
        match items_of st sid with
        | None => (st, Panic "session.rs:manifest:file value not computed")
        | Some (nstrict, items0) =>
            manifest_items (force f) (manifest f) sid nstrict (length items0) 0 [] st
        end
    end.

  (* main.rs: load_real_file(input), eval_value(root), manifest *)
  Definition run_main (fuel : nat) (jpaths : list path) (main : path) : session * res value :=
    match load_real_file (cli_session jpaths) main with
    | (st, inl w) => (st, Err (MainLoadFailed w))
    | (st, inr sid) =>
        match force fuel sid st with
        | (st', Ok _) => manifest fuel sid st'
        | (st', Err x) => (st', Err x)
        | (st', Panic s) => (st', Panic s)
        | (st', OutOfFuel) => (st', OutOfFuel)
        end
    end.

  (* main.rs with -e / stdin (the root is a virtual source), and equally a --ext-code /
     --tla-code snippet whose value the root hands through: load_virt_file, force, manifest *)
  Definition run_virtual (fuel : nat) (jpaths : list path) (repr : path) (data : list N)
    : session * res value :=
    match load_virt_file (cli_session jpaths) repr data with
    | (st, inl w) => (st, Err (MainLoadFailed w))
    | (st, inr sid) =>
        match force fuel sid st with
        | (st', Ok _) => manifest fuel sid st'
        | (st', Err x) => (st', Err x)
        | (st', Panic s) => (st', Panic s)
        | (st', OutOfFuel) => (st', OutOfFuel)
        end
    end.
End World.


(* ------------------------------------------------------------------ *)
(* 4. Concrete file systems                                            *)

Inductive centry :=
| CFile (bytes : list N) (readable : bool)
| CDir (searchable : bool)
| CLink (target : str).

(* physical path (names from the root) -> entry; the root [] is a searchable
   directory when not listed *)
Definition cfs := list (list str * centry).

Fixpoint names_eqb (a b : list str) : bool :=
  match a, b with
  | [], [] => true
  | x :: a', y :: b' => str_eqb x y && names_eqb a' b'
  | _, _ => false
  end.

Fixpoint clookup (t : cfs) (ph : list str) : option centry :=
  match t with
  | [] => match ph with [] => Some (CDir true) | _ => None end
  | (k, e) :: r => if names_eqb k ph then Some e else clookup r ph
  end.

(* split at every '/', keeping empty pieces *)
Fixpoint split_slash (p : str) : list str :=
  match p with
  | [] => [[]]
  | c :: r =>
      if c =? SLASH then [] :: split_slash r
      else match split_slash r with
           | h :: t => (c :: h) :: t
           | [] => [[c]]
           end
  end.

Inductive rres :=
| RFound (ph : list str) (e : centry)
| RNoEnt
| ROther.

Definition is_dot (c : str) : bool := match c with [x] => x =? DOT | _ => false end.
Definition is_dotdot (c : str) : bool := match c with [x; y] => (x =? DOT) && (y =? DOT) | _ => false end.

Definition searchable (t : cfs) (priv : bool) (cur : list str) : bool :=
  priv || match clookup t cur with Some (CDir s) => s | _ => false end.

(* path_resolution(7): [cur] is always a directory; a symlink splices its
   target; at most [nlinks] symlinks are followed (ELOOP) *)
Fixpoint walk (fuel : nat) (t : cfs) (priv : bool) (cur : list str) (comps : list str)
         (nlinks : nat) : rres :=
  match fuel with
  | O => ROther
  | S f =>
      match comps with
      | [] => match clookup t cur with Some e => RFound cur e | None => RNoEnt end
      | c :: rest =>
          match c with
          | [] => walk f t priv cur rest nlinks
          | _ =>
              if negb (searchable t priv cur) then ROther
              else if is_dot c then walk f t priv cur rest nlinks
              else if is_dotdot c then walk f t priv (removelast cur) rest nlinks
              else
                match clookup t (cur ++ [c]) with
                | None => RNoEnt
                | Some (CDir _) => walk f t priv (cur ++ [c]) rest nlinks
                | Some (CFile b r) =>
                    match rest with
                    | [] => RFound (cur ++ [c]) (CFile b r)
                    | _ => ROther      (* ENOTDIR, also for a trailing slash *)
                    end
                | Some (CLink tgt) =>
                    match nlinks with
                    | O => ROther      (* ELOOP *)
                    | S nl =>
                        match tgt with
                        | [] => RNoEnt
                        | _ => walk f t priv (if is_absolute tgt then [] else cur)
                                    (split_slash tgt ++ rest) nl
                        end
                    end
                end
          end
      end
  end.

Definition resolve (t : cfs) (priv : bool) (cwd : list str) (p : path) : rres :=
  match p with
  | [] => RNoEnt
  | _ => walk 4096 t priv (if is_absolute p then [] else cwd) (split_slash p) 40
  end.

Definition cnode (t : cfs) (priv : bool) (cwd : list str) (p : path) : node :=
  match resolve t priv cwd p with
  | RFound _ (CFile b r) => if priv || r then File b else Unreadable
  | RFound _ (CDir s) => if priv || s then Dir else Unreadable   (* mode 000: open() -> EACCES before EISDIR *)
  | RFound _ (CLink _) => Inaccessible   (* not produced by [walk] *)
  | RNoEnt => Missing
  | ROther => Inaccessible
  end.

Definition render_phys (ph : list str) : path :=
  match ph with
  | [] => [SLASH]
  | _ => flat_map (fun n => SLASH :: n) ph
  end.

Definition ccanon (t : cfs) (priv : bool) (cwd : list str) (p : path) : path :=
  match resolve t priv cwd p with
  | RFound ph _ => render_phys ph
  | _ => p
  end.

Fixpoint assoc_bytes (k : list N) (l : list (list N * prog)) : option prog :=
  match l with
  | [] => None
  | (k', v) :: r => if str_eqb k k' then Some v else assoc_bytes k r
  end.

(* the run the correspondence check compares with the real binary *)
Definition run_concrete (t : cfs) (priv : bool) (cwd : list str) (progs : list (list N * prog))
           (fuel : nat) (jpaths : list path) (main : path) : session * res value :=
  run_main (cnode t priv cwd) (ccanon t priv cwd) (fun b => assoc_bytes b progs) fuel jpaths main.

Definition run_concrete_virtual (t : cfs) (priv : bool) (cwd : list str) (progs : list (list N * prog))
           (fuel : nat) (jpaths : list path) (repr : path) (data : list N) : session * res value :=
  run_virtual (cnode t priv cwd) (ccanon t priv cwd) (fun b => assoc_bytes b progs) fuel jpaths repr data.
