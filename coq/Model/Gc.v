(* Model/Gc.v — executable model of rsjsonnet-lang/src/gc/mod.rs (GcContext).

   A heap is the vector [GcContextInner::objs] : one [box] per [Rc<GcBox<_>>],
   in vector order.  What the collector can see of a box:
     bid       identity of the allocation
     edges     the in-heap handles ([Gc<T>] = [Weak<GcBox<T>>]) that [trace]
               visits, as a multiset in visit order; an edge whose target is
               not in the heap is a dangling [Weak] ([upgrade()] fails)
     ext_weak  number of [Gc] handles held outside the heap
     has_view  a [GcView] ([Rc]) exists   <->  Rc::strong_count(obj) > 1
               (at the places where the code reads strong_count the mark queue
               is empty, so the queue's temporary strong refs never show)
     visits, mark   the two [Cell]s of [GcBox]
   Rc::weak_count(obj) = ext_weak + number of edges to obj held by boxes that
   are still in the vector (a box's value, hence its handles, is dropped
   exactly when it leaves the vector: boxes with a view are never removed).

   [gc] mirrors the three loops of [GcContext::gc] statement by statement:
   the count pass (direct marking of viewed objects, early [swap_remove] of
   boxes without any handle, the [swap] reordering, [trace_count]), the mark
   pass over the roots found by [weak_count > visits], and the sweep with
   reset.  No proofs here (Proofs/Gc_proofs.v). *)
From RJ Require Import Base.Outcome.
Local Open Scope outcome_scope.

Record box := mkbox {
  bid : N;
  edges : list N;
  ext_weak : nat;
  has_view : bool;
  visits : nat;
  mark : bool;
}.

Definition heap := list box.
Definition gerr := unit.
Notation res A := (outcome A gerr).

Definition ids (h : heap) : list N := map bid h.

Fixpoint find_box (i : N) (h : heap) : option box :=
  match h with
  | [] => None
  | b :: t => if N.eqb (bid b) i then Some b else find_box i t
  end.

(* update of the box with identity [i] (a [Cell::set] / [RefCell] mutation
   through a handle); no effect when [i] is not in the heap *)
Definition upd (i : N) (f : box -> box) (h : heap) : heap :=
  map (fun b => if N.eqb (bid b) i then f b else b) h.

Definition set_mark_b (b : box) : box :=
  mkbox (bid b) (edges b) (ext_weak b) (has_view b) (visits b) true.
Definition inc_visits_b (b : box) : box :=
  mkbox (bid b) (edges b) (ext_weak b) (has_view b) (S (visits b)) (mark b).
Definition reset_b (b : box) : box :=
  mkbox (bid b) (edges b) (ext_weak b) (has_view b) 0 false.

Definition set_mark (i : N) (h : heap) : heap := upd i set_mark_b h.

(* ---- Rc::weak_count ---- *)
Definition count_id (i : N) (l : list N) : nat := length (filter (N.eqb i) l).
Definition in_count (h : heap) (i : N) : nat :=
  list_sum (map (fun b => count_id i (edges b)) h).
Definition weak_count (h : heap) (b : box) : nat := ext_weak b + in_count h (bid b).

(* ---- Vec::swap / Vec::swap_remove ---- *)
Fixpoint set_nth {A} (i : nat) (x : A) (l : list A) : list A :=
  match l, i with
  | [], _ => []
  | _ :: t, O => x :: t
  | y :: t, S j => y :: set_nth j x t
  end.

Definition swap {A} (l : list A) (i j : nat) : list A :=
  match nth_error l i, nth_error l j with
  | Some x, Some y => set_nth i y (set_nth j x l)
  | _, _ => l    (* Rust would panic; the collector only swaps valid indices *)
  end.

(* v.swap_remove(i), i < len: the last element takes position i *)
Definition rot_last {A} (t : list A) : list A :=
  match t with
  | [] => []
  | x :: r => last t x :: removelast t
  end.
Definition swap_remove {A} (l : list A) (i : nat) : list A :=
  firstn i l ++ rot_last (skipn (S i) l).

(* ---- GcCountCtx::visit_obj over one value's handles ---- *)
Fixpoint trace_count (es : list N) (h : heap) : heap :=
  match es with
  | [] => h
  | e :: es' => trace_count es' (upd e inc_visits_b h)   (* upgrade() fails on a dangling edge: no effect *)
  end.

(* ---- GcMarkCtx::visit_obj over one value's handles; the queue is a Vec
        used as a stack, its top is the head of the list ---- *)
Fixpoint trace_mark (es : list N) (h : heap) (q : list N) : heap * list N :=
  match es with
  | [] => (h, q)
  | e :: es' =>
      match find_box e h with
      | Some b => if mark b then trace_mark es' h q
                  else trace_mark es' (set_mark e h) (e :: q)
      | None => trace_mark es' h q
      end
  end.

(* while let Some(sub_obj) = mark_ctx.queue.pop() { debug_assert!(mark); sub_obj.value.trace_mark(ctx) } *)
Fixpoint drain (fuel : nat) (h : heap) (q : list N) : res heap :=
  match q with
  | [] => Ok h
  | x :: q' =>
      match fuel with
      | O => OutOfFuel
      | S f =>
          match find_box x h with
          | None => Panic "gc/mod.rs:gc:queued object not in the heap"   (* the queue holds strong refs *)
          | Some b =>
              if mark b then
                let '(h', q'') := trace_mark (edges b) h q' in drain f h' q''
              else Panic "gc/mod.rs:gc:debug_assert!(sub_obj.mark.get())"
          end
      end
  end.

(* obj.mark.set(true); obj.value.trace_mark(&mut mark_ctx); while let Some(..) {..} *)
Definition mark_obj (h : heap) (b : box) : res heap :=
  let h1 := set_mark (bid b) h in
  let '(h2, q) := trace_mark (edges b) h1 [] in
  drain (S (length h)) h2 q.

(* ---- first loop: count (to identify roots) ---- *)
Fixpoint count_loop (fuel : nat) (objs : heap) (i kwv : nat) : res heap :=
  match nth_error objs i with
  | None => Ok objs                                  (* i >= objs.len() *)
  | Some b =>
      match fuel with
      | O => OutOfFuel
      | S f =>
          if has_view b then
            (* Rc::strong_count(obj) > 1: at least one GcView, mark directly *)
            do objs1 <- (if mark b then Ok objs else mark_obj objs b);
            if Nat.ltb kwv i
            then count_loop f (swap objs1 i kwv) (S i) (S kwv)
            else count_loop f objs1 (S i) kwv
          else if Nat.eqb (weak_count objs b) 0 then
            (* neither Gc nor GcView: destroy directly (drops its handles) *)
            count_loop f (swap_remove objs i) i kwv
          else if negb (mark b) then
            count_loop f (trace_count (edges b) objs) (S i) kwv
          else
            count_loop f objs (S i) kwv
      end
  end.

(* ---- second loop: for obj in inner.objs.iter() ---- *)
Fixpoint mark_loop (n : nat) (i : nat) (objs : heap) : res heap :=
  match n with
  | O => Ok objs
  | S n' =>
      match nth_error objs i with
      | None => Ok objs
      | Some b =>
          if negb (mark b) && Nat.ltb (visits b) (weak_count objs b)
          then do objs' <- mark_obj objs b; mark_loop n' (S i) objs'
          else mark_loop n' (S i) objs
      end
  end.

(* ---- third loop: sweep ---- *)
Fixpoint sweep_loop (fuel : nat) (objs : heap) (i : nat) : res heap :=
  match nth_error objs i with
  | None => Ok objs
  | Some b =>
      match fuel with
      | O => OutOfFuel
      | S f =>
          if mark b then sweep_loop f (upd (bid b) reset_b objs) (S i)
          else sweep_loop f (swap_remove objs i) i
      end
  end.

Definition gc (h : heap) : res heap :=
  do h1 <- count_loop (length h) h 0 0;
  do h2 <- mark_loop (length h1) 0 h1;
  sweep_loop (length h2) h2 0.

(* ---- the scripted heap driver (mirrors gc/verif_heap.rs, the cfg-guarded hook) ---- *)
Inductive op :=
| OAlloc | OAllocView
| OAddEdge (a b : N) | ODelEdge (a k : N)
| ODropHandle (a : N) | ODropView (a : N)
| OTakeView (a : N) | OTakeHandle (a : N)
| OGc.

Inductive obs :=
| ObsNew (i : N) | ObsDone | ObsSkip
| ObsGc (order : list N)
| ObsFail (site : string).

Record st := mkst { sheap : heap; snext : N }.
Definition init_st : st := mkst [] 0%N.

(* the driver can reach a node iff it holds a handle or a view of it *)
Definition accessible (b : box) : bool := has_view b || Nat.ltb 0 (ext_weak b).

Definition push_edge (e : N) (b : box) : box :=
  mkbox (bid b) (edges b ++ [e]) (ext_weak b) (has_view b) (visits b) (mark b).
Fixpoint remove_nth {A} (k : nat) (l : list A) : list A :=
  match l, k with
  | [], _ => []
  | _ :: t, O => t
  | x :: t, S j => x :: remove_nth j t
  end.
Definition del_edge_b (k : nat) (b : box) : box :=
  mkbox (bid b) (remove_nth k (edges b)) (ext_weak b) (has_view b) (visits b) (mark b).
Definition set_ext (n : nat) (b : box) : box :=
  mkbox (bid b) (edges b) n (has_view b) (visits b) (mark b).
Definition set_view (v : bool) (b : box) : box :=
  mkbox (bid b) (edges b) (ext_weak b) v (visits b) (mark b).

Definition step (s : st) (o : op) : st * obs :=
  let h := sheap s in
  match o with
  | OAlloc =>
      (mkst (h ++ [mkbox (snext s) [] 1 false 0 false]) (N.succ (snext s)), ObsNew (snext s))
  | OAllocView =>
      (mkst (h ++ [mkbox (snext s) [] 0 true 0 false]) (N.succ (snext s)), ObsNew (snext s))
  | OAddEdge a b =>
      match find_box a h, find_box b h with
      | Some ba, Some bb =>
          if accessible ba && accessible bb
          then (mkst (upd a (push_edge b) h) (snext s), ObsDone)
          else (s, ObsSkip)
      | _, _ => (s, ObsSkip)
      end
  | ODelEdge a k =>
      match find_box a h with
      | Some ba =>
          if accessible ba && N.ltb k (N.of_nat (length (edges ba)))
          then (mkst (upd a (del_edge_b (N.to_nat k)) h) (snext s), ObsDone)
          else (s, ObsSkip)
      | None => (s, ObsSkip)
      end
  | ODropHandle a =>
      match find_box a h with
      | Some ba =>
          match ext_weak ba with
          | O => (s, ObsSkip)
          | S n => (mkst (upd a (set_ext n) h) (snext s), ObsDone)
          end
      | None => (s, ObsSkip)
      end
  | ODropView a =>
      match find_box a h with
      | Some ba =>
          if has_view ba then (mkst (upd a (set_view false) h) (snext s), ObsDone) else (s, ObsSkip)
      | None => (s, ObsSkip)
      end
  | OTakeView a =>
      match find_box a h with
      | Some ba =>
          if negb (has_view ba) && Nat.ltb 0 (ext_weak ba)
          then (mkst (upd a (set_view true) h) (snext s), ObsDone) else (s, ObsSkip)
      | None => (s, ObsSkip)
      end
  | OTakeHandle a =>
      match find_box a h with
      | Some ba =>
          if accessible ba
          then (mkst (upd a (set_ext (S (ext_weak ba))) h) (snext s), ObsDone) else (s, ObsSkip)
      | None => (s, ObsSkip)
      end
  | OGc =>
      match gc h with
      | Ok h' => (mkst h' (snext s), ObsGc (ids h'))
      | Panic site => (s, ObsFail site)
      | OutOfFuel => (s, ObsFail "out of fuel")
      | Err _ => (s, ObsFail "err")
      end
  end.

Fixpoint run_ops (s : st) (os : list op) : list obs :=
  match os with
  | [] => []
  | o :: r => let '(s', ob) := step s o in ob :: run_ops s' r
  end.

(* ---- T: the GcTrace field table (filled by tools/translate_gctrace.py into
        Gen/GcTraceTable.v): per type / enum variant the fields whose type can
        hold in-heap handles and the fields its [trace] visits ---- *)
Record trace_row := {
  tr_type : string;
  tr_variant : string;
  tr_gc_fields : list string;
  tr_traced : list string;
}.
Definition count_str (s : string) (l : list string) : nat := length (filter (String.eqb s) l).
Definition mem_str (s : string) (l : list string) : bool := existsb (String.eqb s) l.
(* every handle-bearing field is traced exactly once and nothing else is traced *)
Definition row_ok (r : trace_row) : bool :=
  forallb (fun f => Nat.eqb (count_str f (tr_traced r)) 1) (tr_gc_fields r)
  && forallb (fun f => mem_str f (tr_gc_fields r)) (tr_traced r).
Definition table_ok (t : list trace_row) : bool := forallb row_ok t.
Definition table_has (t : list trace_row) (ty : string) : bool :=
  existsb (fun r => String.eqb (tr_type r) ty) t.
