(* Model/Base64.v — executable model of std.base64 / std.base64Decode /
   std.base64DecodeBytes: rsjsonnet-lang/src/program/eval/stdlib.rs
   [encode_base64], [decode_base64], [do_std_base64], [do_std_base64_array],
   [do_std_base64_decode], [do_std_base64_decode_bytes], as coded.

   Bytes are [N] below 256 (u8 arithmetic is reduced mod 256 where the code's
   shifts drop bits), characters are code points. *)
From RJ Require Import Base.Outcome Base.F64.
From Coq Require Import Floats.SpecFloat.
Local Open Scope N_scope.
Local Open Scope outcome_scope.

Definition str := list N.

Inductive b64_err :=
| BNotByteChar          (* "only codepoints up to 255 can be base64 encoded" *)
| BNotByteNumber        (* "only numbers between 0 and 255 can be base64 encoded" *)
| BBadLength            (* "length of base64 string is not a multiple of 4" *)
| BBadChar (c : N).     (* "invalid base64 character" *)

Notation res A := (outcome A b64_err).

(* encmap = b"ABC…XYZabc…xyz0123456789+/" *)
Definition encmap (i : N) : N :=
  if i <? 26 then 65 + i
  else if i <? 52 then 97 + (i - 26)
  else if i <? 62 then 48 + (i - 52)
  else if i =? 62 then 43
  else 47.

Definition pad : N := 61.  (* '=' *)

(* fn encode_base64 on an already validated byte sequence *)
Fixpoint b64_encode (bs : list N) : str :=
  match bs with
  | [] => []
  | [b0] => [encmap (b0 / 4); encmap ((b0 mod 4) * 16); pad; pad]
  | [b0; b1] => [encmap (b0 / 4); encmap ((b0 mod 4) * 16 + b1 / 16); encmap ((b1 mod 16) * 4); pad]
  | b0 :: b1 :: b2 :: r =>
      encmap (b0 / 4) :: encmap ((b0 mod 4) * 16 + b1 / 16)
      :: encmap ((b1 mod 16) * 4 + b2 / 64) :: encmap (b2 mod 64) :: b64_encode r
  end.

(* std.base64(string): u8::try_from(chr) for every character *)
Definition base64_string (s : str) : res str :=
  if forallb (fun c => c <? 256) s then Ok (b64_encode s) else Err BNotByteChar.

(* [item_value as i32] : truncation toward zero, saturating, NaN -> 0 *)
Definition f_as_i32 (x : f64) : Z :=
  match x with
  | S754_nan => 0%Z
  | S754_infinity s => if s then (- 2 ^ 31)%Z else (2 ^ 31 - 1)%Z
  | _ => match f_trunc_Z x with
         | Some z => Z.max (- 2 ^ 31) (Z.min (2 ^ 31 - 1) z)
         | None => 0%Z
         end
  end.

(* std.base64(array of numbers): u8::try_from(item as i32) for every item *)
Fixpoint bytes_of_numbers (l : list f64) : res (list N) :=
  match l with
  | [] => Ok []
  | x :: r =>
      let z := f_as_i32 x in
      if ((0 <=? z) && (z <=? 255))%Z then
        do bs <- bytes_of_numbers r; Ok (Z.to_N z :: bs)
      else Err BNotByteNumber
  end.

Definition base64_numbers (l : list f64) : res str :=
  do bs <- bytes_of_numbers l; Ok (b64_encode bs).

(* fn chr_to_index *)
Definition chr_to_index (c : N) : res N :=
  if (65 <=? c) && (c <=? 90) then Ok (c - 65)
  else if (97 <=? c) && (c <=? 122) then Ok (c - 97 + 26)
  else if (48 <=? c) && (c <=? 57) then Ok (c - 48 + 52)
  else if c =? 43 then Ok 62
  else if c =? 47 then Ok 63
  else Err (BBadChar c).

Definition u8 (x : N) : N := x mod 256.

(* one full chunk: three bytes *)
Definition dec_chunk (c0 c1 c2 c3 : N) : res (list N) :=
  do i0 <- chr_to_index c0;
  do i1 <- chr_to_index c1;
  do i2 <- chr_to_index c2;
  do i3 <- chr_to_index c3;
  Ok [N.lor (u8 (i0 * 4)) (i1 / 16); N.lor (u8 (i1 * 16)) (i2 / 4); N.lor (u8 (i2 * 64)) i3].

(* the last chunk, with the padding rules *)
Definition dec_last (c0 c1 c2 c3 : N) : res (list N) :=
  do i0 <- chr_to_index c0;
  do i1 <- chr_to_index c1;
  let b0 := N.lor (u8 (i0 * 4)) (i1 / 16) in
  if (c2 =? pad) && (c3 =? pad) then Ok [b0]
  else if c3 =? pad then
    do i2 <- chr_to_index c2;
    Ok [b0; N.lor (u8 (i1 * 16)) (i2 / 4)]
  else
    do i2 <- chr_to_index c2;
    do i3 <- chr_to_index c3;
    Ok [b0; N.lor (u8 (i1 * 16)) (i2 / 4); N.lor (u8 (i2 * 64)) i3].

(* the chunks of 4 characters; [None] when the length is not a multiple of 4 *)
Fixpoint chunks4 (s : str) : option (list (N * N * N * N)) :=
  match s with
  | [] => Some []
  | c0 :: c1 :: c2 :: c3 :: r =>
      match chunks4 r with
      | Some l => Some ((c0, c1, c2, c3) :: l)
      | None => None
      end
  | _ => None
  end.

Fixpoint dec_chunks (l : list (N * N * N * N)) : res (list N) :=
  match l with
  | [] => Ok []
  | [(c0, c1, c2, c3)] => dec_last c0 c1 c2 c3
  | (c0, c1, c2, c3) :: r =>
      do a <- dec_chunk c0 c1 c2 c3;
      do b <- dec_chunks r;
      Ok (a ++ b)
  end.

(* fn decode_base64 *)
Definition b64_decode (s : str) : res (list N) :=
  match chunks4 s with
  | None => Err BBadLength
  | Some l => dec_chunks l
  end.

(* std.base64DecodeBytes = b64_decode; std.base64Decode maps every byte to the
   character with that code point (char::from(u8)): the same list. *)
Definition base64_decode_bytes (s : str) : res (list N) := b64_decode s.
Definition base64_decode (s : str) : res str := b64_decode s.
