(* Model/Lexer.v — executable model of rsjsonnet-lang/src/lexer/mod.rs, as written.

   The lexer state (input, start_pos, end_pos) is a start offset plus a cursor
   [cur] = (end_pos, input[end_pos..]).  Every eat_* helper of the source has a
   counterpart of the same name.  Panic sites of the source (usize subtraction,
   SpanManager::intern_span's asserts reached through make_span, from_utf8 /
   from_u32 / strip_suffix unwraps) are [Panic] outcomes.  Loops that consume one
   byte per iteration are structural recursions on the remaining input; loops
   that consume a variable number of bytes take fuel (initial fuel = remaining
   length + 1, proved sufficient in Proofs/Lexer_proofs.v).

   Not checked here: [implicit_exp -= 1] on isize (overflow needs > 2^63
   fractional digits) — the model uses Z; inputs are assumed shorter than 2^63
   bytes.  No proofs here. *)
From RJ Require Import Base.Outcome Model.Token Model.Utf8.
From Coq Require Import Ascii.
Local Open Scope N_scope.
Local Open Scope outcome_scope.

(* ---- errors: pub enum LexError (lexer/error.rs), span kept apart ---- *)
Inductive lex_error_kind :=
| EInvalidChar (chr : N)
| EInvalidUtf8 (seq : list N)
| EUnfinishedMultilineComment
| ELeadingZeroInNumber
| EMissingFracDigits
| EMissingExpDigits
| EMissingDigitAfterUnderscore
| EExpOverflow
| EInvalidEscapeInString (chr : N)
| EIncompleteUnicodeEscape
| EInvalidUtf16EscapeSequence (cu1 : N) (cu2 : option N)
| EUnfinishedString
| EMissingLineBreakAfterTextBlockStart
| EMissingWhitespaceTextBlockStart
| EInvalidTextBlockTermination.

Record lex_error := { err_kind : lex_error_kind; err_span : span }.

Notation res A := (outcome A lex_error).

(* ---- byte strings from literals ---- *)
Definition bytes_of_string (s : string) : list N :=
  map N_of_ascii (list_ascii_of_string s).

(* ---- tables (the [match] arms of lex_ident / lex_operator / next_token);
   Gen/LexTables.v holds the same tables as read from the current source and
   Props/C14.v proves them equal ---- *)
Definition keyword_table : list (list N * stoken) :=
  map (fun p => (bytes_of_string (fst p), snd p)) [
    ("assert"%string, KAssert); ("else"%string, KElse); ("error"%string, KError);
    ("false"%string, KFalse); ("for"%string, KFor); ("function"%string, KFunction);
    ("if"%string, KIf); ("import"%string, KImport); ("importstr"%string, KImportstr);
    ("importbin"%string, KImportbin); ("in"%string, KIn); ("local"%string, KLocal);
    ("null"%string, KNull); ("tailstrict"%string, KTailstrict); ("then"%string, KThen);
    ("self"%string, KSelf); ("super"%string, KSuper); ("true"%string, KTrue) ].

Definition operator_table : list (list N * stoken) :=
  map (fun p => (bytes_of_string (fst p), snd p)) [
    (":"%string, SColon); ("::"%string, SColonColon); (":::"%string, SColonColonColon);
    ("+:"%string, SPlusColon); ("+::"%string, SPlusColonColon); ("+:::"%string, SPlusColonColonColon);
    ("="%string, SEq); ("$"%string, SDollar); ("*"%string, SAsterisk); ("/"%string, SSlash);
    ("%"%string, SPercent); ("+"%string, SPlus); ("-"%string, SMinus); ("<<"%string, SLtLt);
    (">>"%string, SGtGt); ("<"%string, SLt); ("<="%string, SLtEq); (">"%string, SGt);
    (">="%string, SGtEq); ("=="%string, SEqEq); ("!="%string, SExclamEq); ("&"%string, SAmp);
    ("^"%string, SHat); ("|"%string, SPipe); ("&&"%string, SAmpAmp); ("||"%string, SPipePipe);
    ("!"%string, SExclam); ("~"%string, STilde) ].

(* single-byte tokens decided in next_token *)
Definition single_table : list (N * stoken) :=
  [ (123, SLeftBrace); (125, SRightBrace); (91, SLeftBracket); (93, SRightBracket);
    (44, SComma); (46, SDot); (40, SLeftParen); (41, SRightParen); (59, SSemicolon) ].

(* bytes that send next_token to lex_operator (besides '/' and '|', which are
   tested for comments / text blocks first) *)
Definition op_start_bytes : list N := bytes_of_string "!$:~+-&^=<>*%".
(* lex_operator: bytes after which the operator may end ... *)
Definition op_sure_bytes : list N := bytes_of_string ":&|^=<>*/%".
(* ... and bytes that may continue it but not end it *)
Definition op_unsure_bytes : list N := bytes_of_string "+-~!$".

(* lex_operator: the sequences that cannot appear within an operator: three
   pipes, slash slash, slash star *)
Definition op_forbidden_seqs : list (list N) := [ [124; 124; 124]; [47; 47]; [47; 42] ].

(* the escape arms of lex_quoted_string: dquote quote backslash slash b f n r t *)
Definition escape_table : list (N * N) :=
  [ (34, 34); (39, 39); (92, 92); (47, 47); (98, 8); (102, 12); (110, 10); (114, 13); (116, 9) ].

Fixpoint assoc_bytes {A} (k : list N) (l : list (list N * A)) : option A :=
  match l with
  | [] => None
  | (k', v) :: r => if str_eqb k k' then Some v else assoc_bytes k r
  end.

Fixpoint assoc_byte {A} (k : N) (l : list (N * A)) : option A :=
  match l with
  | [] => None
  | (k', v) :: r => if k =? k' then Some v else assoc_byte k r
  end.

Definition mem_byte (b : N) (l : list N) : bool := existsb (N.eqb b) l.

(* ---- character classes ---- *)
Definition is_digit (b : N) : bool := in_range 48 57 b.                 (* u8::is_ascii_digit *)
Definition is_ident_cont (b : N) : bool :=                                (* is_ascii_alphanumeric() || b == b'_' *)
  in_range 48 57 b || in_range 65 90 b || in_range 97 122 b || (b =? 95).
Definition is_ident_start (b : N) : bool :=                               (* b'_' | b'a'..=b'z' | b'A'..=b'Z' *)
  (b =? 95) || in_range 97 122 b || in_range 65 90 b.
Definition is_ws (b : N) : bool := (b =? 32) || (b =? 9) || (b =? 10) || (b =? 13).
Definition is_blank (b : N) : bool := (b =? 32) || (b =? 9).              (* b' ' | b'\t' *)
Definition is_blank_cr (b : N) : bool := (b =? 32) || (b =? 9) || (b =? 13).
Definition is_e (b : N) : bool := (b =? 101) || (b =? 69).

Definition hex_from_digit (b : N) : option N :=
  if in_range 48 57 b then Some (b - 48)
  else if in_range 97 102 b then Some (b - 97 + 10)
  else if in_range 65 70 b then Some (b - 65 + 10)
  else None.

(* ---- the cursor ---- *)
Record cur := { pos : N; rest : list N }.

Definition eat_any_byte (c : cur) : option (N * cur) :=
  match rest c with
  | [] => None
  | b :: r => Some (b, {| pos := pos c + 1; rest := r |})
  end.

Definition eat_byte_if (p : N -> bool) (c : cur) : option cur :=
  match rest c with
  | [] => None
  | b :: r => if p b then Some {| pos := pos c + 1; rest := r |} else None
  end.

Definition eat_get_byte_if (p : N -> bool) (c : cur) : option (N * cur) :=
  match rest c with
  | [] => None
  | b :: r => if p b then Some (b, {| pos := pos c + 1; rest := r |}) else None
  end.

Definition eat_map_byte {R} (f : N -> option R) (c : cur) : option (R * cur) :=
  match rest c with
  | [] => None
  | b :: r => match f b with
              | Some x => Some (x, {| pos := pos c + 1; rest := r |})
              | None => None
              end
  end.

Definition eat_byte (b : N) (c : cur) : option cur := eat_byte_if (N.eqb b) c.

Fixpoint strip_prefix (s r : list N) : option (list N) :=
  match s with
  | [] => Some r
  | x :: s' => match r with
               | [] => None
               | y :: r' => if x =? y then strip_prefix s' r' else None
               end
  end.

Definition eat_slice (s : list N) (c : cur) : option cur :=
  match strip_prefix s (rest c) with
  | Some r' => Some {| pos := pos c + N.of_nat (length s); rest := r' |}
  | None => None
  end.

(* while self.eat_byte_if(p) {} *)
Fixpoint eat_while_from (p : N -> bool) (ps : N) (r : list N) : cur :=
  match r with
  | [] => {| pos := ps; rest := [] |}
  | b :: r' => if p b then eat_while_from p (ps + 1) r' else {| pos := ps; rest := r |}
  end.
Definition eat_while (p : N -> bool) (c : cur) : cur := eat_while_from p (pos c) (rest c).

(* the bytes a cursor has moved over: input[a.pos .. b.pos] when b is ahead of a *)
Definition bytes_between (a b : cur) : list N :=
  firstn (length (rest a) - length (rest b)) (rest a).

(* fn eat_cont_any_char / eat_any_char: None at end of input; otherwise the new
   cursor and Ok(chr) = Some chr | Err(_) = None *)
Definition eat_cont_any_char (b0 : N) (c : cur) : res (cur * option N) :=
  do r <- decode_cont_char b0 (rest c);
  let '(k, oc) := r in
  Ok ({| pos := pos c + N.of_nat k; rest := skipn k (rest c) |}, oc).

Definition eat_any_char (c : cur) : res (option (cur * option N)) :=
  match eat_any_byte c with
  | None => Ok None
  | Some (b0, c1) => do r <- eat_cont_any_char b0 c1; Ok (Some r)
  end.

Definition or_replacement (oc : option N) : N :=
  match oc with Some ch => ch | None => replacement end.

(* std::str::from_utf8(bytes).unwrap() on bytes the lexer has itself classified
   as ASCII *)
Definition ascii_str (site : string) (bs : list N) : res str :=
  if forallb (fun b => b <? 128) bs then Ok bs else Panic site.

(* usize subtraction *)
Definition usub (a b : N) : res N :=
  if a <? b then Panic "lexer/mod.rs:usize subtraction overflow" else Ok (a - b).

Section Lexer.
(* input.len(): the source context registered with the SpanManager *)
Variable len : N.

(* fn make_span -> SpanManager::intern_span(ctx, start, end): its asserts, for a
   context of [len] bytes (max_offset = min_offset + len + 1) *)
Definition make_span (s e : N) : res span :=
  if negb (s <=? e) then Panic "span.rs:intern_span:assert!(start <= end)"
  else if len <? s then Panic "span.rs:intern_span:assert!(start_offset < max_offset)"
  else if len <? e then Panic "span.rs:intern_span:assert!(end_offset < max_offset)"
  else Ok (s, e).

Definition fail {A} (k : lex_error_kind) (s e : N) : res A :=
  do sp <- make_span s e; Err {| err_kind := k; err_span := sp |}.

(* fn commit_token *)
Definition commit (start : N) (c : cur) (k : token_kind) : res (token * cur) :=
  do sp <- make_span start (pos c);
  Ok ({| tok_span := sp; tok_kind := k |}, c).

(* ---- comments ---- *)
(* while !matches!(self.eat_any_byte(), None | Some(b'\n')) {} *)
Fixpoint line_comment_from (ps : N) (r : list N) : cur :=
  match r with
  | [] => {| pos := ps; rest := [] |}
  | b :: r' => if b =? 10 then {| pos := ps + 1; rest := r' |} else line_comment_from (ps + 1) r'
  end.

Definition lex_single_line_comment (start : N) (c : cur) : res (token * cur) :=
  commit start (line_comment_from (pos c) (rest c)) TComment.

(* loop: if eat_slice(star slash) break; else if eat_any_byte().is_none() error *)
Fixpoint block_comment_from (ps : N) (r : list N) : option cur :=
  match r with
  | [] => None
  | b :: r' =>
      match r' with
      | b' :: r'' => if (b =? 42) && (b' =? 47) then Some {| pos := ps + 2; rest := r'' |}
                     else block_comment_from (ps + 1) r'
      | [] => None
      end
  end.

Definition lex_multi_line_comment (start : N) (c : cur) : res (token * cur) :=
  match block_comment_from (pos c) (rest c) with
  | Some c' => commit start c' TComment
  | None => fail EUnfinishedMultilineComment start len
            (* end_pos has reached input.len() when eat_any_byte fails *)
  end.

(* ---- operators ---- *)
Definition op_forbidden_here (r : list N) : bool :=
  existsb (fun s => match strip_prefix s r with Some _ => true | None => false end) op_forbidden_seqs.

(* the loop of lex_operator.  [acc] = bytes consumed so far (reversed), the
   triple (sp, sr, sacc) is the state at sure_end_pos.  Returns the cursor at
   sure_end_pos and the operator text (reversed). *)
Fixpoint op_loop (r : list N) (ps : N) (acc : list N) (sp : N) (sr : list N) (sacc : list N)
  : cur * list N :=
  if op_forbidden_here r then ({| pos := sp; rest := sr |}, sacc)
  else
    match r with
    | [] => ({| pos := sp; rest := sr |}, sacc)
    | b :: r' =>
        if mem_byte b op_sure_bytes then op_loop r' (ps + 1) (b :: acc) (ps + 1) r' (b :: acc)
        else if mem_byte b op_unsure_bytes then op_loop r' (ps + 1) (b :: acc) sp sr sacc
        else ({| pos := sp; rest := sr |}, sacc)
    end.

(* fn lex_operator; [b0] is the byte next_token has consumed, [c] the cursor after it *)
Definition lex_operator (start : N) (b0 : N) (c : cur) : res (token * cur) :=
  let '(c', racc) := op_loop (rest c) (pos c) [b0] (pos c) (rest c) [b0] in
  let op := rev racc in
  match assoc_bytes op operator_table with
  | Some k => commit start c' (TSimple k)
  | None =>
      do s <- ascii_str "lexer/mod.rs:lex_operator:from_utf8(op).unwrap()" op;
      commit start c' (TOtherOp s)
  end.

(* ---- identifiers and keywords ---- *)
Definition lex_ident (start : N) (b0 : N) (c : cur) : res (token * cur) :=
  let c' := eat_while is_ident_cont c in
  let ident := b0 :: bytes_between c c' in
  match assoc_bytes ident keyword_table with
  | Some k => commit start c' (TSimple k)
  | None =>
      do s <- ascii_str "lexer/mod.rs:lex_ident:from_utf8(ident_bytes).unwrap()" ident;
      commit start c' (TIdent s)
  end.

(* ---- numbers ---- *)
Inductive nstate :=
| NInt (underscore : bool) | NDot | NFrac (underscore : bool)
| NExp | NExpSign | NExpDigits (underscore : bool).

Record nacc := {
  n_digits : list N;          (* String digits, reversed *)
  n_impl : Z;                 (* implicit_exp: isize *)
  n_expl : option N;          (* explicit_exp: Option<u64> *)
  n_sign : bool;              (* explicit_exp_sign *)
}.

Definition u64_max : N := 18446744073709551615.
Definition i64_max : Z := 9223372036854775807.
Definition i64_min : Z := (-9223372036854775808)%Z.

Definition push_digit (a : nacc) (b : N) (frac : bool) : nacc :=
  {| n_digits := b :: n_digits a;
     n_impl := if frac then (n_impl a - 1)%Z else n_impl a;
     n_expl := n_expl a; n_sign := n_sign a |}.

Definition set_expl (a : nacc) (e : option N) : nacc :=
  {| n_digits := n_digits a; n_impl := n_impl a; n_expl := e; n_sign := n_sign a |}.

Definition set_sign (a : nacc) : nacc :=
  {| n_digits := n_digits a; n_impl := n_impl a; n_expl := n_expl a; n_sign := true |}.

(* explicit_exp.and_then(|e| e.checked_mul(10)).and_then(|e| e.checked_add(d)) *)
Definition exp_push (e : option N) (d : N) : option N :=
  match e with
  | None => None
  | Some v => if u64_max <? v * 10 then None
              else if u64_max <? v * 10 + d then None
              else Some (v * 10 + d)
  end.

Inductive nact :=
| NGo (st : nstate) (a : nacc)     (* the byte is consumed *)
| NLeadingZero                     (* the byte is consumed, then LeadingZeroInNumber *)
| NNoMatch.                        (* no eat_* of this state accepts the byte *)

Definition num_step (leading_zero : bool) (st : nstate) (a : nacc) (b : N) : nact :=
  match st with
  | NInt us =>
      if is_digit b then
        if (Nat.eqb (length (n_digits a)) 1) && leading_zero then NLeadingZero
        else NGo (NInt false) (push_digit a b false)
      else if negb us && (b =? 95) then NGo (NInt true) a
      else if b =? 46 then NGo NDot a
      else if is_e b then NGo NExp a
      else NNoMatch
  | NDot =>
      if is_digit b then NGo (NFrac false) (push_digit a b true) else NNoMatch
  | NFrac us =>
      if is_digit b then NGo (NFrac false) (push_digit a b true)
      else if negb us && (b =? 95) then NGo (NFrac true) a
      else if is_e b then NGo NExp a
      else NNoMatch
  | NExp =>
      if b =? 43 then NGo NExpSign a
      else if b =? 45 then NGo NExpSign (set_sign a)
      else if is_digit b then NGo (NExpDigits false) (set_expl a (Some (b - 48)))
      else NNoMatch
  | NExpSign =>
      if is_digit b then NGo (NExpDigits false) (set_expl a (Some (b - 48))) else NNoMatch
  | NExpDigits us =>
      if is_digit b then NGo (NExpDigits false) (set_expl a (exp_push (n_expl a) (b - 48)))
      else if negb us && (b =? 95) then NGo (NExpDigits true) a
      else NNoMatch
  end.

(* what each state does when none of its eat_* succeeds: break or an error whose
   span is (end_pos - back, end_pos) *)
Definition num_stop (st : nstate) (a : nacc) (c : cur) : res (nacc * cur) :=
  let err k back := do s <- usub (pos c) back; fail k s (pos c) in
  match st with
  | NInt true | NFrac true | NExpDigits true => err EMissingDigitAfterUnderscore 1
  | NInt false | NFrac false | NExpDigits false => Ok (a, c)
  | NDot => err EMissingFracDigits 1
  | NExp => err EMissingExpDigits 1
  | NExpSign => err EMissingExpDigits 2
  end.

Fixpoint num_loop (leading_zero : bool) (r : list N) (ps : N) (st : nstate) (a : nacc)
  : res (nacc * cur) :=
  match r with
  | [] => num_stop st a {| pos := ps; rest := [] |}
  | b :: r' =>
      match num_step leading_zero st a b with
      | NGo st' a' => num_loop leading_zero r' (ps + 1) st' a'
      | NLeadingZero =>
          do s <- usub (ps + 1) 2;
          do e <- usub (ps + 1) 1;
          fail ELeadingZeroInNumber s e
      | NNoMatch => num_stop st a {| pos := ps; rest := r |}
      end
  end.

(* the effective exponent (i64) or ExpOverflow *)
Definition eff_exp (a : nacc) : option Z :=
  match n_expl a with
  | None => None
  | Some e =>
      if (i64_max <? Z.of_N e)%Z then None
      else
        let ez := Z.of_N e in
        let r := if n_sign a then (n_impl a - ez)%Z else (n_impl a + ez)%Z in
        if (r <? i64_min)%Z || (i64_max <? r)%Z then None else Some r
  end.

Definition lex_number (start : N) (chr0 : N) (c : cur) : res (token * cur) :=
  if negb (is_digit chr0) then Panic "lexer/mod.rs:lex_number:assert!(chr0.is_ascii_digit())"
  else
    let a0 := {| n_digits := [chr0]; n_impl := 0%Z; n_expl := Some 0; n_sign := false |} in
    do r <- num_loop (chr0 =? 48) (rest c) (pos c) (NInt false) a0;
    let '(a, c') := r in
    match eff_exp a with
    | None => fail EExpOverflow start (pos c')
    | Some e => commit start c' (TNumber {| num_digits := rev (n_digits a); num_exp := e |})
    end.

(* ---- quoted strings ---- *)
(* the closure eat_codeunit: consumed hex digits stay consumed on failure *)
Definition eat_codeunit (c : cur) : option N * cur :=
  match eat_map_byte hex_from_digit c with
  | None => (None, c)
  | Some (d0, c1) =>
  match eat_map_byte hex_from_digit c1 with
  | None => (None, c1)
  | Some (d1, c2) =>
  match eat_map_byte hex_from_digit c2 with
  | None => (None, c2)
  | Some (d2, c3) =>
  match eat_map_byte hex_from_digit c3 with
  | None => (None, c3)
  | Some (d3, c4) =>
      (Some (N.lor (N.lor (N.lor (N.shiftl d0 12) (N.shiftl d1 8)) (N.shiftl d2 4)) d3), c4)
  end end end end.

Definition is_surrogate (cu : N) : bool := in_range 0xD800 0xDFFF cu.

(* char::decode_utf16([cu1, cu2]).next().unwrap() for a surrogate cu1 *)
Definition decode_utf16_pair (cu1 cu2 : N) : option N :=
  if in_range 0xD800 0xDBFF cu1 && in_range 0xDC00 0xDFFF cu2
  then Some (0x10000 + N.lor (N.shiftl (cu1 - 0xD800) 10) (cu2 - 0xDC00))
  else None.

(* one escape sequence; [c1] is the cursor after the backslash *)
Definition lex_escape (start : N) (c1 : cur) : res (N * cur) :=
  do escape_start <- usub (pos c1) 1;
  match eat_map_byte (fun b => assoc_byte b escape_table) c1 with
  | Some (ch, c2) => Ok (ch, c2)
  | None =>
    match eat_byte 117 c1 with    (* 'u' *)
    | Some c2 =>
        match eat_codeunit c2 with
        | (None, c3) => fail EIncompleteUnicodeEscape escape_start (pos c3)
        | (Some cu1, c3) =>
            match (if is_surrogate cu1 then eat_slice [92; 117] c3 else None) with
            | Some c4 =>
                match eat_codeunit c4 with
                | (None, c5) => fail EIncompleteUnicodeEscape (escape_start + 6) (pos c5)
                | (Some cu2, c5) =>
                    match decode_utf16_pair cu1 cu2 with
                    | Some ch => Ok (ch, c5)
                    | None => fail (EInvalidUtf16EscapeSequence cu1 (Some cu2)) escape_start (pos c5)
                    end
                end
            | None =>
                if is_scalar cu1 then Ok (cu1, c3)     (* char::from_u32(cu1.into()) *)
                else fail (EInvalidUtf16EscapeSequence cu1 None) escape_start (pos c3)
            end
        end
    | None =>
        do r <- eat_any_char c1;
        match r with
        | None => fail EUnfinishedString start (pos c1)
        | Some (c2, oc) => fail (EInvalidEscapeInString (or_replacement oc)) escape_start (pos c2)
        end
    end
  end.

Fixpoint quoted_loop (fuel : nat) (start delim : N) (c : cur) : res (list N * cur) :=
  match fuel with
  | O => OutOfFuel
  | S f =>
      match eat_byte delim c with
      | Some c1 => Ok ([], c1)
      | None =>
          match eat_byte 92 c with
          | Some c1 =>
              do r <- lex_escape start c1;
              let '(ch, c2) := r in
              do t <- quoted_loop f start delim c2;
              let '(s, c3) := t in Ok (ch :: s, c3)
          | None =>
              do r <- eat_any_char c;
              match r with
              | None => fail EUnfinishedString start (pos c)
              | Some (c1, oc) =>
                  do t <- quoted_loop f start delim c1;
                  let '(s, c3) := t in Ok (or_replacement oc :: s, c3)
              end
          end
      end
  end.

Definition lex_quoted_string (start delim : N) (c : cur) : res (token * cur) :=
  do r <- quoted_loop (S (length (rest c))) start delim c;
  let '(s, c') := r in commit start c' (TString s).

(* ---- verbatim strings ---- *)
Fixpoint verbatim_loop (fuel : nat) (start delim : N) (c : cur) : res (list N * cur) :=
  match fuel with
  | O => OutOfFuel
  | S f =>
      match eat_byte delim c with
      | Some c1 =>
          match eat_byte delim c1 with
          | Some c2 =>
              do t <- verbatim_loop f start delim c2;
              let '(s, c3) := t in Ok (delim :: s, c3)
          | None => Ok ([], c1)
          end
      | None =>
          do r <- eat_any_char c;
          match r with
          | None => fail EUnfinishedString start (pos c)
          | Some (c1, oc) =>
              do t <- verbatim_loop f start delim c1;
              let '(s, c3) := t in Ok (or_replacement oc :: s, c3)
          end
      end
  end.

Definition lex_verbatim_string (start delim : N) (c : cur) : res (token * cur) :=
  do r <- verbatim_loop (S (length (rest c))) start delim c;
  let '(s, c') := r in commit start c' (TString s).

(* ---- text blocks ---- *)
(* the first loop: finds the indentation prefix of the first non-empty line;
   returns the characters pushed so far, the prefix and the cursor *)
Fixpoint tb_first_loop (fuel : nat) (c : cur) : res (list N * list N * cur) :=
  match fuel with
  | O => OutOfFuel
  | S f =>
      let c1 := eat_while is_blank c in
      let prefix := bytes_between c c1 in
      let '(cr, c2) := match eat_byte 13 c1 with Some c2 => ([13], c2) | None => ([], c1) end in
      match prefix with
      | [] =>
          match eat_byte 10 c2 with
          | Some c3 =>
              do t <- tb_first_loop f c3;
              let '(s, p, c4) := t in Ok (cr ++ 10 :: s, p, c4)
          | None => fail EMissingWhitespaceTextBlockStart (pos c) (pos c1)
          end
      | _ => Ok (cr, prefix, c2)
      end
  end.

(* loop: if eat(LF) push elif eat_slice(CR LF) push else break *)
Fixpoint tb_blank_lines (ps : N) (r : list N) : list N * cur :=
  match r with
  | 10 :: r' => let '(s, c) := tb_blank_lines (ps + 1) r' in (10 :: s, c)
  | 13 :: r' =>
      match r' with
      | 10 :: r'' => let '(s, c) := tb_blank_lines (ps + 2) r'' in (13 :: 10 :: s, c)
      | _ => ([], {| pos := ps; rest := r |})
      end
  | _ => ([], {| pos := ps; rest := r |})
  end.

(* 'outer loop (its inner [while self.eat_byte(b'\n')] merged: both return to the
   same test) *)
Fixpoint tb_body_loop (fuel : nat) (start : N) (prefix : list N) (c : cur) : res (list N * cur) :=
  match fuel with
  | O => OutOfFuel
  | S f =>
      match eat_byte 10 c with
      | Some c1 =>
          let '(blank, c2) := tb_blank_lines (pos c1) (rest c1) in
          match eat_slice prefix c2 with
          | Some c3 =>
              do t <- tb_body_loop f start prefix c3;
              let '(s, c4) := t in Ok (10 :: blank ++ s, c4)
          | None =>
              let c3 := eat_while is_blank c2 in
              match eat_slice [124; 124; 124] c3 with
              | Some c4 => Ok (10 :: blank, c4)
              | None => fail EInvalidTextBlockTermination (pos c2) (pos c3)
              end
          end
      | None =>
          do r <- eat_any_char c;
          match r with
          | None => fail EUnfinishedString start (pos c)
          | Some (c1, oc) =>
              do t <- tb_body_loop f start prefix c1;
              let '(s, c4) := t in Ok (or_replacement oc :: s, c4)
          end
      end
  end.

(* string.strip_suffix('\n').unwrap() *)
Definition strip_last_lf (s : list N) : res (list N) :=
  match rev s with
  | 10 :: r => Ok (rev r)
  | _ => Panic "lexer/mod.rs:lex_text_block:strip_suffix('\n').unwrap()"
  end.

(* fn lex_text_block; [c] is the cursor after the three pipes *)
Definition lex_text_block (start : N) (c : cur) : res (token * cur) :=
  let '(strip, c1) := match eat_byte 45 c with Some c1 => (true, c1) | None => (false, c) end in
  let c2 := eat_while is_blank_cr c1 in
  match eat_byte 10 c2 with
  | None => fail EMissingLineBreakAfterTextBlockStart start (pos c2)
  | Some c3 =>
      do t <- tb_first_loop (S (length (rest c3))) c3;
      let '(s1, prefix, c4) := t in
      do u <- tb_body_loop (S (length (rest c4))) start prefix c4;
      let '(s2, c5) := u in
      let s := s1 ++ s2 in
      do actual <- (if strip then strip_last_lf s else Ok s);
      commit start c5 (TTextBlock actual)
  end.

(* ---- next_token ---- *)
Definition next_token (c : cur) : res (token * cur) :=
  let start := pos c in
  match eat_any_byte c with
  | None => commit start c TEndOfFile
  | Some (b, c1) =>
      match assoc_byte b single_table with
      | Some k => commit start c1 (TSimple k)
      | None =>
      if b =? 47 then                                   (* '/' *)
        match eat_byte 47 c1 with
        | Some c2 => lex_single_line_comment start c2
        | None =>
            match eat_byte 42 c1 with
            | Some c2 => lex_multi_line_comment start c2
            | None => lex_operator start b c1
            end
        end
      else if b =? 124 then                             (* '|' *)
        match eat_slice [124; 124] c1 with
        | Some c2 => lex_text_block start c2
        | None => lex_operator start b c1
        end
      else if mem_byte b op_start_bytes then lex_operator start b c1
      else if is_ws b then commit start (eat_while is_ws c1) TWhitespace
      else if b =? 35 then lex_single_line_comment start c1      (* '#' *)
      else if is_digit b then lex_number start b c1
      else if is_ident_start b then lex_ident start b c1
      else if b =? 64 then                              (* '@' *)
        match eat_byte 39 c1 with
        | Some c2 => lex_verbatim_string start 39 c2
        | None =>
            match eat_byte 34 c1 with
            | Some c2 => lex_verbatim_string start 34 c2
            | None => fail (EInvalidChar 64) start (pos c1)
            end
        end
      else if b =? 39 then lex_quoted_string start 39 c1
      else if b =? 34 then lex_quoted_string start 34 c1
      else
        do r <- eat_cont_any_char b c1;
        let '(c2, oc) := r in
        match oc with
        | Some ch => fail (EInvalidChar ch) start (pos c2)
        | None => fail (EInvalidUtf8 (b :: bytes_between c1 c2)) start (pos c2)
        end
      end
  end.

Definition is_trivia (k : token_kind) : bool :=
  match k with TWhitespace | TComment => true | _ => false end.

Definition is_eof (k : token_kind) : bool :=
  match k with TEndOfFile => true | _ => false end.

(* fn lex_to_eof(whitespaces_and_comments) *)
Fixpoint lex_loop (fuel : nat) (keep : bool) (c : cur) : res (list token) :=
  match fuel with
  | O => OutOfFuel
  | S f =>
      do r <- next_token c;
      let '(t, c') := r in
      if is_eof (tok_kind t) then Ok [t]
      else
        do ts <- lex_loop f keep c';
        Ok (if keep || negb (is_trivia (tok_kind t)) then t :: ts else ts)
  end.

End Lexer.

Definition lex_all (keep : bool) (input : list N) : res (list token) :=
  lex_loop (N.of_nat (length input)) (S (length input)) keep {| pos := 0; rest := input |}.
