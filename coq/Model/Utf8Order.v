(* Model/Utf8Order.v — the string order used by the evaluator.

   Rust compares `str` values ([Rc<str>] inside [ValueData::String], and the
   interned field names behind [SortedInternedStr]) with `Ord for str`, i.e.
   lexicographically on the bytes of the UTF-8 encoding.  Strings of the model are
   lists of code points, so the comparison is modelled as: encode, then compare
   byte lists.  (A small encoder of our own: only the forward direction is needed
   here; Model/Utf8.v — decoding, malformed input — belongs to C14.)  No proofs
   in this file. *)
From Coq Require Import List NArith.
Import ListNotations.
Local Open Scope N_scope.

(* a code point the encoder is defined on (Rust `char`: also excludes the
   surrogates, which the order theorem does not need) *)
Definition cp_ok (c : N) : bool := c <? 0x110000.

Definition utf8_enc (c : N) : list N :=
  if c <? 0x80 then [c]
  else if c <? 0x800 then [0xC0 + c / 64; 0x80 + c mod 64]
  else if c <? 0x10000 then [0xE0 + c / 4096; 0x80 + (c / 64) mod 64; 0x80 + c mod 64]
  else [0xF0 + c / 262144; 0x80 + (c / 4096) mod 64; 0x80 + (c / 64) mod 64; 0x80 + c mod 64].

Fixpoint utf8 (s : list N) : list N :=
  match s with
  | [] => []
  | c :: r => utf8_enc c ++ utf8 r
  end.

(* lexicographic three-way comparison of lists of numbers (`Ord for [u8]`, and
   — on code points — the order the language definition asks for) *)
Fixpoint lex_compare (a b : list N) : comparison :=
  match a, b with
  | [], [] => Eq
  | [], _ :: _ => Lt
  | _ :: _, [] => Gt
  | x :: a', y :: b' =>
      match x ?= y with
      | Eq => lex_compare a' b'
      | c => c
      end
  end.

Fixpoint list_eqb (a b : list N) : bool :=
  match a, b with
  | [], [] => true
  | x :: a', y :: b' => (x =? y) && list_eqb a' b'
  | _, _ => false
  end.

(* `str == str` and `str.cmp(str)` *)
Definition str_eqb (s t : list N) : bool := list_eqb (utf8 s) (utf8 t).
Definition str_compare (s t : list N) : comparison := lex_compare (utf8 s) (utf8 t).
