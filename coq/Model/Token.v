(* Model/Token.v — mirror of rsjsonnet-lang/src/token.rs.
   Strings are lists of Unicode code points ([N]); a span is a (start, end)
   byte-offset pair inside the file being processed. *)
From RJ Require Import Base.Outcome.
Local Open Scope N_scope.

Definition str := list N.          (* code points *)
Definition span := (N * N)%type.   (* byte offsets: start, end *)

(* pub enum STokenKind — same order as the source *)
Inductive stoken :=
(* keywords *)
| KAssert | KElse | KError | KFalse | KFor | KFunction | KIf | KImport | KImportstr | KImportbin
| KIn | KLocal | KNull | KTailstrict | KThen | KSelf | KSuper | KTrue
(* symbols *)
| SExclam | SExclamEq | SDollar | SPercent | SAmp | SAmpAmp | SLeftParen | SRightParen
| SAsterisk | SPlus | SPlusColon | SPlusColonColon | SPlusColonColonColon | SComma | SMinus
| SDot | SSlash | SColon | SColonColon | SColonColonColon | SSemicolon | SLt | SLtLt | SLtEq
| SEq | SEqEq | SGt | SGtEq | SGtGt | SLeftBracket | SRightBracket | SHat | SLeftBrace
| SPipe | SPipePipe | SRightBrace | STilde.

(* pub struct Number { digits: &str, exp: i64 } *)
Record number := { num_digits : str; num_exp : Z }.

(* pub enum TokenKind *)
Inductive token_kind :=
| TEndOfFile
| TWhitespace
| TComment
| TSimple (k : stoken)
| TOtherOp (op : str)
| TIdent (name : str)
| TNumber (n : number)
| TString (s : str)
| TTextBlock (s : str).

Record token := { tok_span : span; tok_kind : token_kind }.

Definition stoken_eqb (a b : stoken) : bool :=
  match a, b with
  | KAssert, KAssert | KElse, KElse | KError, KError | KFalse, KFalse | KFor, KFor
  | KFunction, KFunction | KIf, KIf | KImport, KImport | KImportstr, KImportstr
  | KImportbin, KImportbin | KIn, KIn | KLocal, KLocal | KNull, KNull
  | KTailstrict, KTailstrict | KThen, KThen | KSelf, KSelf | KSuper, KSuper | KTrue, KTrue
  | SExclam, SExclam | SExclamEq, SExclamEq | SDollar, SDollar | SPercent, SPercent
  | SAmp, SAmp | SAmpAmp, SAmpAmp | SLeftParen, SLeftParen | SRightParen, SRightParen
  | SAsterisk, SAsterisk | SPlus, SPlus | SPlusColon, SPlusColon
  | SPlusColonColon, SPlusColonColon | SPlusColonColonColon, SPlusColonColonColon
  | SComma, SComma | SMinus, SMinus | SDot, SDot | SSlash, SSlash | SColon, SColon
  | SColonColon, SColonColon | SColonColonColon, SColonColonColon | SSemicolon, SSemicolon
  | SLt, SLt | SLtLt, SLtLt | SLtEq, SLtEq | SEq, SEq | SEqEq, SEqEq | SGt, SGt
  | SGtEq, SGtEq | SGtGt, SGtGt | SLeftBracket, SLeftBracket | SRightBracket, SRightBracket
  | SHat, SHat | SLeftBrace, SLeftBrace | SPipe, SPipe | SPipePipe, SPipePipe
  | SRightBrace, SRightBrace | STilde, STilde => true
  | _, _ => false
  end.

Lemma stoken_eqb_eq a b : stoken_eqb a b = true <-> a = b.
Proof. split; [destruct a, b; simpl; intros H; try discriminate; reflexivity | intros ->; destruct b; reflexivity]. Qed.

Fixpoint str_eqb (a b : str) : bool :=
  match a, b with
  | [], [] => true
  | x :: a', y :: b' => (x =? y) && str_eqb a' b'
  | _, _ => false
  end.

Lemma str_eqb_eq a b : str_eqb a b = true <-> a = b.
Proof.
  revert b. induction a as [|x a IH]; destruct b as [|y b]; simpl; split; intros H; try discriminate; auto.
  - apply andb_true_iff in H as [H1 H2]. apply N.eqb_eq in H1. apply IH in H2. congruence.
  - injection H as -> ->. rewrite N.eqb_refl. apply IH. reflexivity.
Qed.
