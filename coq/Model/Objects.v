(* Model/Objects.v — executable model of the object layer algebra of
   rsjsonnet-lang/src/program/data.rs (ObjectData, ObjectLayer, ObjectField)
   and of the places of the evaluator that consult it:

     data.rs   ObjectData::find_field / has_field / get_fields_order /
               get_visible_fields_order / has_visible_field,
               Program::extend_object, Program::object_with_field_removed
     eval      want_field (self.f, o.f), want_super_field (super.f),
               State::InSuper (f in super), PendingThunk::FieldPlus (f+: e),
               std.length / objectHasEx / objectFieldsEx / objectRemoveKey /
               mapWithKey / prune / mergePatch on objects, manifestation order.

   The functions are copied as written, including the [layer_i += depth]
   arithmetic, the [while let Some(layer) = super_layers.get(layer_i - 1)]
   loops (fuelled; [layer_i - 1] on 0 is a [Panic] site) and the per-name
   visibility merging state machine of [get_fields_order] over a BTreeMap
   (a sorted association list here).

   Not modelled: environments (locals, base_env, is_top / [$]), asserts, thunk
   cells.  Field bodies are payloads for the algebra; the small body language
   below (numbers, null, self.g, super.g, g in super, +) exists so that the
   correspondence check can compare field *values* and manifestation too, and
   so that late binding of [self] and the starting layer of [super] can be
   stated.  usize arithmetic is unbounded [N] (depths never exceed the number
   of layers). No proofs here. *)
From RJ Require Import Base.Outcome.
Local Open Scope N_scope.
Local Open Scope outcome_scope.

(* ---- names: interned strings, ordered as SortedInternedStr (str::cmp =
   lexicographic on UTF-8 bytes = lexicographic on code points) ---- *)
Definition name := list N.

Fixpoint name_compare (a b : name) : comparison :=
  match a, b with
  | [], [] => Eq
  | [], _ :: _ => Lt
  | _ :: _, [] => Gt
  | x :: a', y :: b' =>
      match x ?= y with
      | Eq => name_compare a' b'
      | Lt => Lt
      | Gt => Gt
      end
  end.

Definition name_eqb (a b : name) : bool :=
  match name_compare a b with Eq => true | _ => false end.

(* ---- values of the small body language ---- *)
Inductive value := VNum (z : Z) | VNull.

Inductive everr :=
| EUnknownField      (* EvalErrorKind::UnknownObjectField *)
| ENoSuper           (* EvalErrorKind::SuperWithoutSuperObject *)
| EInfinite          (* EvalErrorKind::InfiniteRecursion *)
| EBadAdd            (* EvalErrorKind::InvalidBinaryOpTypes *)
| EAssert (msg : option N).   (* EvalErrorKind::AssertFailed { message } (user message = "m<msg>") *)

Notation res A := (outcome A everr).

(* ---- ast::Visibility ---- *)
Inductive vis := Default | Hidden | ForceVisible.

Definition vis_eqb (a b : vis) : bool :=
  match a, b with
  | Default, Default | Hidden, Hidden | ForceVisible, ForceVisible => true
  | _, _ => false
  end.

(* ---- field bodies ---- *)
Inductive body :=
| BNum (z : Z)
| BNull
| BSelf (g : name)       (* self.g   (also $.g, self["g"]) *)
| BSuper (g : name)      (* super.g  (also super["g"]) *)
| BInSuper (g : name)    (* if "g" in super then 1 else 0 *)
| BAdd (a b : body)      (* a + b *)
| BRes (r : res value).  (* a field whose thunk belongs to another object: its outcome, raised when forced *)

(* ObjectFieldData: visibility, expr = (body, plus) *)
Record fdata := { f_vis : vis; f_plus : bool; f_body : body }.

(* enum ObjectField { Normal(ObjectFieldData), Removed(usize) } *)
Inductive field := Normal (d : fdata) | Removed (depth : N).

(* ObjectLayer.fields : FHashMap<InternedStr, ObjectField>; keys are unique
   (Proofs: [wf_layer]); iteration order of the hash map is the list order. *)
Definition layer := list (name * field).

(* ObjectData { self_layer, super_layers } *)
(* ir::Assert of an object layer: `assert (cond) != 0 : "m<msg>"`; the condition is a body *)
Record assertion := { a_cond : body; a_msg : option N }.

(* ObjectData { self_layer, super_layers }.  ObjectLayer has [fields] and [asserts]; the
   model keeps the asserts of all layers in a list aligned with [layers] (self layer first),
   so that the lookup functions read plain field layers. *)
Record obj := { self_layer : layer; super_layers : list layer; asserts : list (list assertion) }.

Definition layers (o : obj) : list layer := self_layer o :: super_layers o.

(* ObjectData::new_empty / the literal {} *)
Definition empty_obj : obj := {| self_layer := []; super_layers := []; asserts := [[]] |}.

(* layer.fields.get(&name) *)
Fixpoint layer_get (l : layer) (n : name) : option field :=
  match l with
  | [] => None
  | (k, f) :: r => if name_eqb k n then Some f else layer_get r n
  end.

(* Vec::get with a usize index; never builds a huge unary number *)
Definition nthN {A} (l : list A) (i : N) : option A :=
  if N.of_nat (length l) <=? i then None else nth_error l (N.to_nat i).

Definition site_underflow : string := "data.rs:find_field:layer_i - 1 underflows".
Definition site_underflow_vis : string := "data.rs:has_visible_field:layer_i - 1 underflows".

(* ---- ObjectData::find_field ----
     while let Some(layer) = self.super_layers.get(layer_i - 1) {
         if let Some(field) = layer.fields.get(&name) {
             match field { Normal(field) => return Some((layer_i, field)),
                           Removed(depth) => layer_i += depth } }
         layer_i += 1; }
     None *)
Fixpoint find_loop (fuel : nat) (supers : list layer) (layer_i : N) (n : name)
  : res (option (N * fdata)) :=
  match fuel with
  | O => OutOfFuel
  | S fuel' =>
      if layer_i =? 0 then Panic site_underflow
      else
        match nthN supers (layer_i - 1) with
        | None => Ok None
        | Some layer =>
            match layer_get layer n with
            | Some (Normal d) => Ok (Some (layer_i, d))
            | Some (Removed depth) => find_loop fuel' supers (layer_i + depth + 1) n
            | None => find_loop fuel' supers (layer_i + 1) n
            end
        end
  end.

Definition loop_fuel (o : obj) : nat := S (length (super_layers o)).

Definition find_field (o : obj) (layer_i : N) (n : name) : res (option (N * fdata)) :=
  if layer_i =? 0 then
    match layer_get (self_layer o) n with
    | Some (Normal d) => Ok (Some (layer_i, d))
    | Some (Removed depth) => find_loop (loop_fuel o) (super_layers o) (layer_i + depth + 1) n
    | None => find_loop (loop_fuel o) (super_layers o) (layer_i + 1) n
    end
  else find_loop (loop_fuel o) (super_layers o) layer_i n.

(* fn has_field(&self, layer_i, name) -> bool { self.find_field(layer_i, name).is_some() } *)
Definition has_field (o : obj) (layer_i : N) (n : name) : res bool :=
  do r <- find_field o layer_i n;
  Ok (match r with Some _ => true | None => false end).

(* ---- ObjectData::has_visible_field ---- *)
Fixpoint hv_loop (fuel : nat) (supers : list layer) (layer_i : N) (n : name) (found : bool)
  : res bool :=
  match fuel with
  | O => OutOfFuel
  | S fuel' =>
      if layer_i =? 0 then Panic site_underflow_vis
      else
        match nthN supers (layer_i - 1) with
        | None => Ok found
        | Some layer =>
            match layer_get layer n with
            | Some (Normal d) =>
                match f_vis d with
                | Default => hv_loop fuel' supers (layer_i + 1) n true
                | Hidden => Ok false
                | ForceVisible => Ok true
                end
            | Some (Removed depth) => hv_loop fuel' supers (layer_i + depth + 1) n found
            | None => hv_loop fuel' supers (layer_i + 1) n found
            end
        end
  end.

Definition has_visible_field (o : obj) (n : name) : res bool :=
  match layer_get (self_layer o) n with
  | Some (Normal d) =>
      match f_vis d with
      | Default => hv_loop (loop_fuel o) (super_layers o) (0 + 1) n true
      | Hidden => Ok false
      | ForceVisible => Ok true
      end
  | Some (Removed depth) => hv_loop (loop_fuel o) (super_layers o) (0 + depth + 1) n false
  | None => hv_loop (loop_fuel o) (super_layers o) (0 + 1) n false
  end.

(* ---- ObjectData::get_fields_order ----
   enum FieldState { Normal(Visibility, usize), Removed(usize) }
   [Normal(vis, skip_until)]: visibility found so far, and the last layer hidden
   from this field by a [Removed] marker met below it (repaired state machine,
   see notes/C07.md; the machine as first found is Proofs: [Old]). *)
Inductive fstate := SNormal (v : vis) (skip_until : N) | SRemoved (layer_i : N).

Definition field_to_state (f : field) (layer_i : N) : fstate :=
  match f with
  | Normal d => SNormal (f_vis d) 0
  | Removed depth => SRemoved (layer_i + depth)
  end.

(* BTreeMap<SortedInternedStr, FieldState> *)
Definition btmap := list (name * fstate).

Fixpoint bt_get (m : btmap) (n : name) : option fstate :=
  match m with
  | [] => None
  | (k, v) :: r => if name_eqb k n then Some v else bt_get r n
  end.

(* insert-or-replace, keeping the keys strictly increasing *)
Fixpoint bt_set (m : btmap) (n : name) (s : fstate) : btmap :=
  match m with
  | [] => [(n, s)]
  | (k, v) :: r =>
      match name_compare n k with
      | Lt => (n, s) :: m
      | Eq => (n, s) :: r
      | Gt => (k, v) :: bt_set r n s
      end
  end.

(* one (n, f) of super layer [layer_i] against the map: the Vacant / Occupied arms *)
Definition merge_entry (layer_i : N) (m : btmap) (nf : name * field) : btmap :=
  let '(n, f) := nf in
  match bt_get m n with
  | None => bt_set m n (field_to_state f layer_i)
  | Some (SNormal Default skip_until) =>
      if skip_until <? layer_i then
        match f with
        | Normal d => bt_set m n (SNormal (f_vis d) 0)
        | Removed depth => bt_set m n (SNormal Default (layer_i + depth))
        end
      else m
  | Some (SNormal _ _) => m
  | Some (SRemoved removed_layer_i) =>
      if removed_layer_i <? layer_i then bt_set m n (field_to_state f layer_i) else m
  end.

Fixpoint merge_layers (m : btmap) (layer_i : N) (ls : list layer) : btmap :=
  match ls with
  | [] => m
  | l :: r => merge_layers (fold_left (merge_entry layer_i) l m) (layer_i + 1) r
  end.

Definition state_entry (e : name * fstate) : option (name * vis) :=
  match e with
  | (n, SNormal v _) => Some (n, v)
  | (_, SRemoved _) => None
  end.

Fixpoint filter_map {A B} (f : A -> option B) (l : list A) : list B :=
  match l with
  | [] => []
  | x :: r => match f x with Some y => y :: filter_map f r | None => filter_map f r end
  end.

Definition all_fields (o : obj) : btmap :=
  let m0 := fold_left (fun m (nf : name * field) => bt_set m (fst nf) (field_to_state (snd nf) 0))
                      (self_layer o) [] in
  merge_layers m0 1 (super_layers o).

Definition get_fields_order (o : obj) : list (name * vis) :=
  filter_map state_entry (all_fields o).

(* get_visible_fields_order: visibility != Hidden *)
Definition get_visible_fields_order (o : obj) : list name :=
  filter_map (fun nv : name * vis => match snd nv with Hidden => None | _ => Some (fst nv) end)
             (get_fields_order o).

(* ---- Program::extend_object (lhs + rhs); cloning a layer copies its fields ---- *)
Definition extend (lhs rhs : obj) : obj :=
  {| self_layer := self_layer rhs;
     super_layers := super_layers rhs ++ [self_layer lhs] ++ super_layers lhs;
     asserts := asserts rhs ++ asserts lhs |}.

(* ---- Program::object_with_field_removed (std.objectRemoveKey, key interned) ---- *)
Definition remove_key (o : obj) (n : name) : obj :=
  {| self_layer := [(n, Removed (N.of_nat (length (super_layers o)) + 1))];
     super_layers := self_layer o :: super_layers o;
     asserts := [] :: asserts o |}.

(* ---- evaluation of field bodies against an object ----
   [vs] is the set of field thunks in progress, as (layer, name); re-entering
   one is InfiniteRecursion (ThunkState::InProgress). *)
Definition thunk_id := (N * name)%type.

Fixpoint in_progress (vs : list thunk_id) (j : N) (n : name) : bool :=
  match vs with
  | [] => false
  | (k, m) :: r => ((k =? j) && name_eqb m n) || in_progress r j n
  end.

Definition add_values (a b : value) : res value :=
  match a, b with
  | VNum x, VNum y => Ok (VNum (x + y)%Z)
  | _, _ => Err EBadAdd
  end.

Fixpoint eval_body (fuel : nat) (o : obj) (vs : list thunk_id) (layer_i : N) (b : body)
  {struct fuel} : res value :=
  match fuel with
  | O => OutOfFuel
  | S fuel' =>
      match b with
      | BNum z => Ok (VNum z)
      | BNull => Ok VNull
      | BRes r => r
      | BSelf g =>
          (* want_field: find_object_field_thunk(object, 0, g) *)
          do r <- find_field o 0 g;
          match r with
          | None => Err EUnknownField
          | Some (j, d) => eval_thunk fuel' o vs j g d
          end
      | BSuper g =>
          (* want_super_field *)
          if layer_i =? N.of_nat (length (super_layers o)) then Err ENoSuper
          else
            do r <- find_field o (layer_i + 1) g;
            match r with
            | None => Err EUnknownField
            | Some (j, d) => eval_thunk fuel' o vs j g d
            end
      | BInSuper g =>
          (* State::InSuper: object.has_field(layer_i + 1, g) *)
          do h <- has_field o (layer_i + 1) g;
          Ok (VNum (if h then 1 else 0)%Z)
      | BAdd x y =>
          do vx <- eval_body fuel' o vs layer_i x;
          do vy <- eval_body fuel' o vs layer_i y;
          add_values vx vy
      end
  end
with eval_thunk (fuel : nat) (o : obj) (vs : list thunk_id) (j : N) (n : name) (d : fdata)
  {struct fuel} : res value :=
  match fuel with
  | O => OutOfFuel
  | S fuel' =>
      if in_progress vs j n then Err EInfinite
      else
        let vs' := (j, n) :: vs in
        if f_plus d then
          (* PendingThunk::FieldPlus: super field first, then the expression, then + *)
          do r <- find_field o (j + 1) n;
          match r with
          | Some (j2, d2) =>
              do vx <- eval_thunk fuel' o vs' j2 n d2;
              do vy <- eval_body fuel' o vs' j (f_body d);
              add_values vx vy
          | None => eval_body fuel' o vs' j (f_body d)
          end
        else eval_body fuel' o vs' j (f_body d)
  end.

Definition eval_fuel : nat := 4000.

(* o.n *)
Definition eval_field (o : obj) (n : name) : res value :=
  do r <- find_field o 0 n;
  match r with
  | None => Err EUnknownField
  | Some (j, d) => eval_thunk eval_fuel o [] j n d
  end.

(* manifestation: visible fields in order, first failure wins *)
Fixpoint eval_fields (o : obj) (ns : list name) : res (list (name * value)) :=
  match ns with
  | [] => Ok []
  | n :: r =>
      do v <- eval_field o n;
      do rest <- eval_fields o r;
      Ok ((n, v) :: rest)
  end.

Definition manifest (o : obj) : res (list (name * value)) :=
  eval_fields o (get_visible_fields_order o).

(* check_object_asserts: the asserts of every layer, self layer first, each against the whole
   object from its own layer; the first failure wins.  Runs once per object, before the first
   field access from outside (o.f) or manifestation. *)
Fixpoint check_layer_asserts (o : obj) (layer_i : N) (l : list assertion) : res value :=
  match l with
  | [] => Ok VNull
  | a :: r =>
      do v <- eval_body eval_fuel o [] layer_i (a_cond a);
      match v with
      | VNum Z0 => Err (EAssert (a_msg a))
      | _ => check_layer_asserts o layer_i r
      end
  end.

Fixpoint check_asserts_from (o : obj) (layer_i : N) (ls : list (list assertion)) : res value :=
  match ls with
  | [] => Ok VNull
  | l :: r => do _u <- check_layer_asserts o layer_i l; check_asserts_from o (layer_i + 1) r
  end.

Definition check_asserts (o : obj) : res value := check_asserts_from o 0 (asserts o).

(* o.n and manifestation as seen from outside: asserts first *)
(* want_field: the field is looked up first (unknown field wins), then the asserts run, then the thunk *)
Definition index_field (o : obj) (n : name) : res value :=
  do r <- find_field o 0 n;
  match r with
  | None => Err EUnknownField
  | Some (j, d) => do _u <- check_asserts o; eval_thunk eval_fuel o [] j n d
  end.

Definition manifest_checked (o : obj) : res (list (name * value)) :=
  do _u <- check_asserts o; manifest o.

(* std.length(o) *)
Definition obj_length (o : obj) : N := N.of_nat (length (get_visible_fields_order o)).

(* ---- objects returned by builtins (SimpleObjectBuilder / new_empty + inserts):
   one layer of Default-visibility fields whose thunks are already bound ---- *)
Definition done_field (r : res value) : field :=
  Normal {| f_vis := Default; f_plus := false; f_body := BRes r |}.

Definition simple_obj (fs : list (name * res value)) : obj :=
  {| self_layer := map (fun nr : name * res value => (fst nr, done_field (snd nr))) fs;
     super_layers := [];
     asserts := [[]] |}.

(* std.mapWithKey(function(k, v) v + c, o): lazy call thunks over the visible fields.
   The asserts of o run lazily, at the first self.g met while one of these thunks is forced;
   that is NOT modelled: generated programs keep the sources of mapWithKey free of asserts. *)
Definition map_with_key (c : Z) (o : obj) : obj :=
  simple_obj (map (fun n => (n, do v <- eval_field o n; add_values v (VNum c)))
                  (get_visible_fields_order o)).

(* std.prune(o) with number/null field values: every visible field is forced in
   order; null ones are dropped *)
Fixpoint prune_fields (o : obj) (ns : list name) : res (list (name * res value)) :=
  match ns with
  | [] => Ok []
  | n :: r =>
      do v <- eval_field o n;
      do rest <- prune_fields o r;
      Ok (match v with VNull => rest | _ => (n, Ok v) :: rest end)
  end.

Definition prune (o : obj) : res obj :=
  do _u <- check_asserts o;
  do fs <- prune_fields o (get_visible_fields_order o);
  Ok (simple_obj fs).

(* std.mergePatch(target, patch), both objects, field values numbers/null:
   target's visible fields not named by patch keep their thunks; for every
   visible patch field (in order) the target's field, when visible there, is
   forced first, then the patch's; a null patch value deletes. *)
Fixpoint name_in (n : name) (l : list name) : bool :=
  match l with [] => false | k :: r => name_eqb k n || name_in n r end.

Fixpoint merge_patch_fields (t p : obj) (tfields ns : list name) : res (list (name * res value)) :=
  match ns with
  | [] => Ok []
  | n :: r =>
      do _tv <- (if name_in n tfields then eval_field t n else Ok VNull);
      do v <- eval_field p n;
      do rest <- merge_patch_fields t p tfields r;
      Ok (match v with VNull => rest | _ => (n, Ok v) :: rest end)
  end.

Definition merge_patch (t p : obj) : res obj :=
  let pf := get_visible_fields_order p in
  let tf := get_visible_fields_order t in
  let kept := map (fun n => (n, eval_field t n)) (filter (fun n => negb (name_in n pf)) tf) in
  do _u <- check_asserts t;
  do _v <- check_asserts p;
  do patched <- merge_patch_fields t p tf pf;
  Ok (simple_obj (kept ++ patched)).

(* ---- object expressions: what the generated programs denote ---- *)
Inductive oexpr :=
| OLit (l : layer) (a : list assertion)   (* an object literal: one layer of Normal fields, its asserts *)
| OPlus (a b : oexpr)              (* a + b *)
| ORemove (e : oexpr) (n : name)   (* std.objectRemoveKey(e, n) *)
| OMapKey (c : Z) (e : oexpr)      (* std.mapWithKey(function(k, v) v + c, e) *)
| OPrune (e : oexpr)               (* std.prune(e) *)
| OMergePatch (t p : oexpr).       (* std.mergePatch(t, p) *)

Fixpoint build (e : oexpr) : res obj :=
  match e with
  | OLit l a => Ok {| self_layer := l; super_layers := []; asserts := [a] |}
  | OPlus a b => do x <- build a; do y <- build b; Ok (extend x y)
  | ORemove e n => do x <- build e; Ok (remove_key x n)
  | OMapKey c e => do x <- build e; Ok (map_with_key c x)
  | OPrune e => do x <- build e; prune x
  | OMergePatch t p => do x <- build t; do y <- build p; merge_patch x y
  end.
