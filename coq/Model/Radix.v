(* Model/Radix.v — executable model of std.parseInt / std.parseOctal / std.parseHex:
   rsjsonnet-lang/src/program/eval/mod.rs [parse_num_radix] and
   stdlib.rs [do_std_parse_int / do_std_parse_octal / do_std_parse_hex], as coded.

   A string is its list of code points; Rust's [&str] is the UTF-8 encoding, so
   every byte offset of the code ([s.len()], [s[..n]], [s[n..]]) is computed
   here from [utf8_len].  Slicing at an offset that is not a character boundary
   is a [Panic] (core::str::slice_error_fail).

   Two versions are kept:
   * [parse_num_radix_orig] — the function as it stood in the snapshot commit
     (byte slicing; digits after the first exact chunk only scale the value);
   * [parse_num_radix] — the function as it stands now (after the fix: commit
     recorded in notes/C20.md): character-wise chunking and a sticky bit.
   The check runs the model named [parse_num_radix] against the code. *)
From RJ Require Import Base.Outcome Base.F64.
From Coq Require Import Floats.SpecFloat.
Local Open Scope N_scope.
Local Open Scope outcome_scope.

Definition str := list N.

Inductive radix_err :=
| REmpty                    (* ParseNumRadixError::Empty *)
| RInvalidDigit (c : N)     (* ParseNumRadixError::InvalidDigit(chr) *)
| ROverflow.                (* ParseNumRadixError::Overflow / EvalErrorKind::NumberOverflow *)

Notation res A := (outcome A radix_err).

(* char::len_utf8 *)
Definition utf8_len (c : N) : N :=
  if c <? 128 then 1 else if c <? 2048 then 2 else if c <? 65536 then 3 else 4.

Fixpoint str_bytes (s : str) : N :=
  match s with [] => 0 | c :: r => utf8_len c + str_bytes r end.

(* char::to_digit(radix), radix <= 36: ASCII digits and letters only *)
Definition to_digit (radix c : N) : option N :=
  let d :=
    if (48 <=? c) && (c <=? 57) then Some (c - 48)
    else if (97 <=? c) && (c <=? 122) then Some (c - 97 + 10)
    else if (65 <=? c) && (c <=? 90) then Some (c - 65 + 10)
    else None in
  match d with
  | Some v => if v <? radix then Some v else None
  | None => None
  end.

(* str::trim_start_matches('0') *)
Fixpoint trim_zeros (s : str) : str :=
  match s with
  | c :: r => if c =? 48 then trim_zeros r else s
  | [] => []
  end.

(* (&s[..n], &s[n..]) for n <= s.len(); panics inside a multi-byte character *)
Fixpoint split_bytes (s : str) (n : N) : res (str * str) :=
  if n =? 0 then Ok ([], s)
  else match s with
       | [] => Panic "mod.rs:parse_num_radix:slice index out of range"
       | c :: r =>
           let l := utf8_len c in
           if l <=? n then
             do ab <- split_bytes r (n - l); Ok (c :: fst ab, snd ab)
           else Panic "mod.rs:parse_num_radix:byte index is not a char boundary"
       end.

Definition max_digits_128 (radix : N) : N := if radix =? 8 then 42 else 32.  (* 128/3, 128/4 *)

Definition u128_lim : N := 2 ^ 128.

(* first loop: exact accumulation in u128 *)
Fixpoint acc_u128 (radix : N) (s : str) (number : N) : res N :=
  match s with
  | [] => Ok number
  | c :: r =>
      match to_digit radix c with
      | None => Err (RInvalidDigit c)
      | Some d =>
          let n' := number * radix + d in
          if u128_lim <=? n' then Panic "mod.rs:parse_num_radix:u128 arithmetic overflow"
          else acc_u128 radix r n'
      end
  end.

(* second loop of the original code: the digit's value is not used *)
Fixpoint scale_rest_orig (radix : N) (s : str) (number : f64) : res f64 :=
  match s with
  | [] => Ok number
  | c :: r =>
      match to_digit radix c with
      | None => Err (RInvalidDigit c)
      | Some _ => scale_rest_orig radix r (f_mul number (f_of_N radix))
      end
  end.

Definition parse_num_radix_orig (radix : N) (s : str) : res f64 :=
  match s with
  | [] => Err REmpty
  | _ =>
      let s := trim_zeros s in
      let n128 := N.min (str_bytes s) (max_digits_128 radix) in
      do hd_tl <- split_bytes s n128;
      do number <- acc_u128 radix (fst hd_tl) 0;
      do number <- scale_rest_orig radix (snd hd_tl) (f_of_N number);
      if f_is_finite number then Ok number else Err ROverflow
  end.

(* ---- the function as it stands now ------------------------------------- *)

(* s.chars().take(n) / the rest of the iterator *)
Fixpoint split_chars (s : str) (n : nat) : str * str :=
  match n, s with
  | O, _ => ([], s)
  | _, [] => ([], [])
  | S k, c :: r => let ab := split_chars r k in (c :: fst ab, snd ab)
  end.

(* second loop: validates, counts the digits and remembers whether one is non-zero *)
Fixpoint scan_rest (radix : N) (s : str) (extra : nat) (sticky : bool) : res (nat * bool) :=
  match s with
  | [] => Ok (extra, sticky)
  | c :: r =>
      match to_digit radix c with
      | None => Err (RInvalidDigit c)
      | Some d => scan_rest radix r (S extra) (sticky || negb (d =? 0))
      end
  end.

Fixpoint scale (radix : N) (k : nat) (number : f64) : f64 :=
  match k with
  | O => number
  | S k' => scale radix k' (f_mul number (f_of_N radix))
  end.

Definition parse_num_radix (radix : N) (s : str) : res f64 :=
  match s with
  | [] => Err REmpty
  | _ =>
      let s := trim_zeros s in
      let hd_tl := split_chars s (N.to_nat (max_digits_128 radix)) in
      do number <- acc_u128 radix (fst hd_tl) 0;
      do es <- scan_rest radix (snd hd_tl) O false;
      let number := if snd es then N.lor number 1 else number in
      let number := scale radix (fst es) (f_of_N number) in
      if f_is_finite number then Ok number else Err ROverflow
  end.

(* ---- std.parseInt ------------------------------------------------------- *)
(* strip_prefix('-'); every remaining char must be an ASCII digit; then
   [s.parse::<f64>()] (Rust's correctly rounded decimal conversion, modelled —
   not verified — as the nearest-even double of the integer). *)
Inductive int_err := IEmpty | IInvalid (c : N) | IOverflow.

Fixpoint dec_value (s : str) (acc : N) : outcome N int_err :=
  match s with
  | [] => Ok acc
  | c :: r => if (48 <=? c) && (c <=? 57) then dec_value r (acc * 10 + (c - 48))
              else Err (IInvalid c)
  end.

Definition parse_int (s : str) : outcome f64 int_err :=
  let '(neg, sub) := match s with
                     | 45 :: r => (true, r)
                     | _ => (false, s)
                     end in
  match sub with
  | [] => Err IEmpty
  | _ =>
      do v <- dec_value sub 0;
      let x := if v =? 0 then S754_zero neg
               else f_of_Z (if neg then Z.opp (Z.of_N v) else Z.of_N v) in
      if f_is_finite x then Ok x else Err IOverflow
  end.
