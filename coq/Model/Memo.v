(* Model/Memo.v — the thunk state machine of the Rust evaluator, as an abstract
   machine over event traces.

   Mirrors (rsjsonnet-lang/src/program):
     data.rs  ThunkState = Done(value) | Pending(payload) | InProgress
              ThunkData::switch_state : Done v      -> answer Done v, cell unchanged
                                        Pending p   -> cell := InProgress, answer Pending p
                                        InProgress  -> answer InProgress
              ThunkData::set_done v   : assert!(cell is InProgress); cell := Done v
     eval/mod.rs run():
              State::DoThunk(t)  => match t.switch_state()
                                      Done v     -> push v                       (observation Hit)
                                      Pending p  -> push GotThunk(t); run p      (observation Run)
                                      InProgress -> Err(InfiniteRecursion)       (observation Cycle, run aborted)
              State::GotThunk(t) => t.set_done(top of the value stack)           (observation Stored)
              any `?` error      => run() returns, the state stack is dropped; cells that were
                                    InProgress stay InProgress (no unwinding of thunks)

   The machine state is the cell table plus the stack of [GotThunk] entries that are on
   the evaluator's state stack (innermost first).  The evaluator drives it with events:
   allocation of a cell, DoThunk on a cell, completion of the innermost running payload
   with a value, and an evaluation error.  Everything else the evaluator does is
   irrelevant to the cells.  No proofs here. *)
From RJ Require Import Base.Outcome.

Section Memo.
Variable V : Type.            (* values *)

Inductive cell : Type :=
| Pending
| InProgress
| Done (v : V).

Inductive event : Type :=
| EvAlloc (c : cell)          (* new_pending_*_thunk / new_done: c is Pending or Done v *)
| EvForce (id : nat)          (* State::DoThunk(id) is popped *)
| EvReturn (v : V)            (* the innermost running payload produced v: State::GotThunk is popped *)
| EvError.                    (* some state returned Err: run() unwinds *)

Inductive obs : Type :=
| OAlloc (id : nat)
| ORun (id : nat)             (* the payload of id starts executing *)
| OHit (id : nat) (v : V)     (* answered from the stored value, nothing executed *)
| OCycle (id : nat)           (* InfiniteRecursion *)
| OStored (id : nat) (v : V)  (* set_done *)
| OAborted                    (* evaluation ended with an error *)
| OIgnored                    (* event after the run ended / GotThunk with nothing running *)
| OPanic.                     (* set_done's assert! fires *)

Record mstate : Type := MkM {
  cells : list cell;
  running : list nat;          (* GotThunk entries on the state stack, innermost first *)
  halted : bool                (* run() has returned with an error or a panic *)
}.

Definition init : mstate := MkM [] [] false.

Fixpoint set_cell (cs : list cell) (id : nat) (c : cell) : list cell :=
  match cs, id with
  | [], _ => []
  | _ :: cs', O => c :: cs'
  | x :: cs', S k => x :: set_cell cs' k c
  end.

Definition step (m : mstate) (e : event) : mstate * obs :=
  if halted m then (m, OIgnored) else
  match e with
  | EvAlloc c =>
      match c with
      | InProgress => (m, OIgnored)     (* no constructor makes such a cell *)
      | _ => (MkM (cells m ++ [c]) (running m) false, OAlloc (length (cells m)))
      end
  | EvForce id =>
      match nth_error (cells m) id with
      | None => (m, OIgnored)            (* a DoThunk always holds a live handle *)
      | Some (Done v) => (m, OHit id v)
      | Some Pending => (MkM (set_cell (cells m) id InProgress) (id :: running m) false, ORun id)
      | Some InProgress => (MkM (cells m) (running m) true, OCycle id)
      end
  | EvReturn v =>
      match running m with
      | [] => (m, OIgnored)
      | id :: rest =>
          match nth_error (cells m) id with
          | Some InProgress => (MkM (set_cell (cells m) id (Done v)) rest false, OStored id v)
          | _ => (MkM (cells m) (running m) true, OPanic)          (* the assert in set_done *)
          end
      end
  | EvError => (MkM (cells m) (running m) true, OAborted)
  end.

Fixpoint exec (m : mstate) (es : list event) : mstate * list obs :=
  match es with
  | [] => (m, [])
  | e :: es' =>
      let '(m1, o) := step m e in
      let '(m2, os) := exec m1 es' in
      (m2, o :: os)
  end.

(* a second evaluation request on the same program after a failed one: the state stack
   is new (empty), the cells are kept (Program::eval_value on the same thunks) *)
Definition restart (m : mstate) : mstate := MkM (cells m) [] false.

Definition is_run (id : nat) (o : obs) : bool :=
  match o with ORun j => Nat.eqb id j | _ => false end.

Definition count_run (id : nat) (os : list obs) : nat := length (filter (is_run id) os).

End Memo.

Arguments Pending {V}.
Arguments InProgress {V}.
Arguments Done {V} v.
Arguments EvAlloc {V} c.
Arguments EvForce {V} id.
Arguments EvReturn {V} v.
Arguments EvError {V}.
Arguments OAlloc {V} id.
Arguments ORun {V} id.
Arguments OHit {V} id v.
Arguments OCycle {V} id.
Arguments OStored {V} id v.
Arguments OAborted {V}.
Arguments OIgnored {V}.
Arguments OPanic {V}.
Arguments init {V}.
