(* Model/JsonParse.v — executable model of std.parseJson:
   rsjsonnet-lang/src/program/eval/parse_json.rs ([parse_json] with its explicit
   stack, [Lexer::skip_spaces / eat_* / lex_number / lex_string]), as coded,
   including the line/column bookkeeping of the error values.

   [str::parse::<f64>] (Rust std) is modelled — not verified — by [dec_to_f64],
   the correctly rounded (nearest-even) double of the decimal number. *)
From RJ Require Import Base.Outcome Base.F64.
From Coq Require Import Floats.SpecFloat.
Local Open Scope N_scope.
Local Open Scope outcome_scope.

Definition str := list N.

Inductive jvalue :=
| JNull
| JBool (b : bool)
| JNum (x : f64)
| JStr (s : str)
| JArr (items : list jvalue)
| JObj (fields : list (str * jvalue)).

Inductive jerr_kind :=
| EExpectedValue | EExpectedEof | EExpected1 (c : N) | EExpected2 (c1 c2 : N)
| EInvalidNumber | ENumberOverflow | EUnfinishedString | EInvalidChrInString
| EInvalidStringEscape | EExpectedObjectKey | ERepeatedFieldName (key : str).

Record jerr := { je_line : N; je_col : N; je_kind : jerr_kind }.
Notation res A := (outcome A jerr).

Record lexer := { lx_line : N; lx_col : N; lx_rem : str }.

Definition get_error {A} (lx : lexer) (k : jerr_kind) : res A :=
  Err {| je_line := lx_line lx; je_col := lx_col lx; je_kind := k |}.
Definition error_at {A} (lx : lexer) (col : N) (k : jerr_kind) : res A :=
  Err {| je_line := lx_line lx; je_col := col; je_kind := k |}.

(* fn skip_spaces: exactly TAB, LF, CR, SPACE *)
Fixpoint skip_ws (line col : N) (s : str) : lexer :=
  match s with
  | c :: r =>
      if c =? 9 then skip_ws line (col + 1) r
      else if c =? 10 then skip_ws (line + 1) 0 r
      else if c =? 13 then skip_ws line (col + 1) r
      else if c =? 32 then skip_ws line (col + 1) r
      else {| lx_line := line; lx_col := col; lx_rem := s |}
  | [] => {| lx_line := line; lx_col := col; lx_rem := [] |}
  end.
Definition skip_spaces (lx : lexer) : lexer := skip_ws (lx_line lx) (lx_col lx) (lx_rem lx).

Definition advance (lx : lexer) (n : N) (r : str) : lexer :=
  {| lx_line := lx_line lx; lx_col := lx_col lx + n; lx_rem := r |}.

Definition eat_char (c : N) (lx : lexer) : option lexer :=
  match lx_rem lx with
  | d :: r => if d =? c then Some (advance lx 1 r) else None
  | [] => None
  end.

Fixpoint strip_prefix (p s : str) : option str :=
  match p with
  | [] => Some s
  | a :: p' => match s with
               | b :: s' => if a =? b then strip_prefix p' s' else None
               | [] => None
               end
  end.

(* fn eat_str: column += s.len() (ASCII only) *)
Definition eat_str (p : str) (lx : lexer) : option lexer :=
  match strip_prefix p (lx_rem lx) with
  | Some r => Some (advance lx (N.of_nat (length p)) r)
  | None => None
  end.

(* ---- numbers ------------------------------------------------------------ *)

(* nearest-even double of (-1)^neg * m * 10^e; the clamps only avoid building
   astronomically large powers: beyond them the result is already inf / zero *)
Definition dec_to_f64 (neg : bool) (m : N) (e : Z) : f64 :=
  if m =? 0 then S754_zero neg else
  let sgn (z : Z) := if neg then Z.opp z else z in
  if (400 <? e)%Z then S754_infinity neg
  else if (0 <=? e)%Z then f_of_Z (sgn (Z.of_N (m * 10 ^ Z.to_N e)))
  else
    let n := Z.to_N (- e) in
    let lm := N.log2 m in
    if lm + 1100 <? 3 * n then S754_zero neg
    else
      let d := 10 ^ n in
      let k := (N.log2 d + 65) - lm in
      let num := m * 2 ^ k in
      let q := num / d in
      let m' := 2 * q + (if num mod d =? 0 then 0 else 1) in
      f_of_Z_exp (sgn (Z.of_N m')) (- Z.of_N k - 1).

Inductive nstate := NStart | NMinus | NZero | NIntPart | NDot | NFracPart | NE | NESign | NEDigits.
Inductive ntrans := TGo (st : nstate) | TBreak | TFail.

Definition is_digit (c : N) : bool := (48 <=? c) && (c <=? 57).
Definition is_digit19 (c : N) : bool := (49 <=? c) && (c <=? 57).
Definition is_e (c : N) : bool := (c =? 101) || (c =? 69).

(* one iteration of the [loop { match state … }] of lex_number; [None] = end of input *)
Definition nstep (st : nstate) (oc : option N) : ntrans :=
  let c := match oc with Some c => c | None => 1114112 end in   (* no character *)
  match st with
  | NStart => if c =? 45 then TGo NMinus else if c =? 48 then TGo NZero
              else if is_digit19 c then TGo NIntPart else TBreak
  | NMinus => if c =? 48 then TGo NZero else if is_digit19 c then TGo NIntPart else TFail
  | NZero => if is_digit c then TFail else if c =? 46 then TGo NDot
             else if is_e c then TGo NE else TBreak
  | NIntPart => if is_digit c then TGo NIntPart else if c =? 46 then TGo NDot
                else if is_e c then TGo NE else TBreak
  | NDot => if is_digit c then TGo NFracPart else TFail
  | NFracPart => if is_digit c then TGo NFracPart else if is_e c then TGo NE else TBreak
  | NE => if (c =? 45) || (c =? 43) then TGo NESign else if is_digit c then TGo NEDigits else TFail
  | NESign => if is_digit c then TGo NEDigits else TFail
  | NEDigits => if is_digit c then TGo NEDigits else TBreak
  end.

Record nacc := { na_neg : bool; na_mant : N; na_nfrac : N; na_eneg : bool; na_exp : N; na_len : N }.
Definition nacc0 : nacc :=
  {| na_neg := false; na_mant := 0; na_nfrac := 0; na_eneg := false; na_exp := 0; na_len := 0 |}.

(* what the consumed character contributes to the decimal value *)
Definition nupd (st : nstate) (c : N) (a : nacc) : nacc :=
  let a := {| na_neg := na_neg a; na_mant := na_mant a; na_nfrac := na_nfrac a;
              na_eneg := na_eneg a; na_exp := na_exp a; na_len := na_len a + 1 |} in
  match st with
  | NStart | NMinus | NZero | NIntPart =>
      if c =? 45 then {| na_neg := true; na_mant := na_mant a; na_nfrac := na_nfrac a;
                         na_eneg := na_eneg a; na_exp := na_exp a; na_len := na_len a |}
      else if is_digit c then {| na_neg := na_neg a; na_mant := na_mant a * 10 + (c - 48); na_nfrac := na_nfrac a;
                                 na_eneg := na_eneg a; na_exp := na_exp a; na_len := na_len a |}
      else a
  | NDot | NFracPart =>
      if is_digit c then {| na_neg := na_neg a; na_mant := na_mant a * 10 + (c - 48); na_nfrac := na_nfrac a + 1;
                            na_eneg := na_eneg a; na_exp := na_exp a; na_len := na_len a |}
      else a
  | NE | NESign | NEDigits =>
      if c =? 45 then {| na_neg := na_neg a; na_mant := na_mant a; na_nfrac := na_nfrac a;
                         na_eneg := true; na_exp := na_exp a; na_len := na_len a |}
      else if is_digit c then {| na_neg := na_neg a; na_mant := na_mant a; na_nfrac := na_nfrac a;
                                 na_eneg := na_eneg a; na_exp := na_exp a * 10 + (c - 48); na_len := na_len a |}
      else a
  end.

Fixpoint lex_num (st : nstate) (a : nacc) (s : str) : option (nacc * str) :=   (* None = InvalidNumber *)
  match s with
  | [] => match nstep st None with TBreak => Some (a, []) | _ => None end
  | c :: r => match nstep st (Some c) with
              | TGo st' => lex_num st' (nupd st c a) r
              | TBreak => Some (a, s)
              | TFail => None
              end
  end.

Definition nacc_value (a : nacc) : f64 :=
  let ex := if na_eneg a then Z.opp (Z.of_N (na_exp a)) else Z.of_N (na_exp a) in
  dec_to_f64 (na_neg a) (na_mant a) (ex - Z.of_N (na_nfrac a)).

(* fn lex_number -> Result<Option<f64>, ParseError> *)
Definition lex_number (lx : lexer) : res (option (f64 * lexer)) :=
  match lex_num NStart nacc0 (lx_rem lx) with
  | None => error_at lx (lx_col lx) EInvalidNumber
  | Some (a, rest) =>
      if na_len a =? 0 then Ok None
      else
        let x := nacc_value a in
        if f_is_finite x then Ok (Some (x, advance lx (na_len a) rest))
        else error_at lx (lx_col lx) ENumberOverflow
  end.

(* ---- strings ------------------------------------------------------------ *)

Definition hex_from_digit (c : N) : option N :=
  if (48 <=? c) && (c <=? 57) then Some (c - 48)
  else if (97 <=? c) && (c <=? 102) then Some (c - 97 + 10)
  else if (65 <=? c) && (c <=? 70) then Some (c - 65 + 10)
  else None.

(* eat_codeunit: four hex digits *)
Definition eat_codeunit (s : str) : option (N * str) :=
  match s with
  | c0 :: c1 :: c2 :: c3 :: r =>
      match hex_from_digit c0, hex_from_digit c1, hex_from_digit c2, hex_from_digit c3 with
      | Some d0, Some d1, Some d2, Some d3 => Some (d0 * 4096 + d1 * 256 + d2 * 16 + d3, r)
      | _, _, _, _ => None
      end
  | _ => None
  end.

Definition is_surrogate (u : N) : bool := (55296 <=? u) && (u <=? 57343).

(* the body of the [Some('u')] arm: returns the character and the rest, with the
   number of characters consumed after the 'u' *)
Definition lex_u_escape (s : str) : option (N * N * str) :=
  match eat_codeunit s with
  | None => None
  | Some (cu1, r1) =>
      match (if is_surrogate cu1 then strip_prefix [92; 117] r1 else None) with
      | Some r2 =>
          match eat_codeunit r2 with
          | None => None
          | Some (cu2, r3) =>
              (* char::decode_utf16([cu1, cu2]).next() is Ok only for a high/low pair *)
              if (cu1 <=? 56319) && (56320 <=? cu2) && (cu2 <=? 57343)
              then Some (65536 + (cu1 - 55296) * 1024 + (cu2 - 56320), 10, r3)
              else None
          end
      | None =>
          if is_surrogate cu1 then None          (* char::from_u32 fails *)
          else Some (cu1, 4, r1)
      end
  end.

Definition simple_escape (c : N) : option N :=
  if c =? 34 then Some 34 else if c =? 92 then Some 92 else if c =? 47 then Some 47
  else if c =? 98 then Some 8 else if c =? 102 then Some 12 else if c =? 110 then Some 10
  else if c =? 114 then Some 13 else if c =? 116 then Some 9 else None.

(* the loop of lex_string after the opening quote; [start_col] = column after it *)
Fixpoint lex_string_body (fuel : nat) (lx : lexer) (start_col : N) (acc : str) : res (str * lexer) :=
  match fuel with
  | O => OutOfFuel
  | S fuel' =>
      match lx_rem lx with
      | [] => error_at lx start_col EUnfinishedString
      | c :: r =>
          if c =? 34 then Ok (rev acc, advance lx 1 r)
          else if c =? 92 then
            match r with
            | [] => error_at lx start_col EUnfinishedString
            | e :: r' =>
                if e =? 117 then
                  match lex_u_escape r' with
                  | Some (ch, n, r'') => lex_string_body fuel' (advance lx (2 + n) r'') start_col (ch :: acc)
                  | None => error_at lx (lx_col lx) EInvalidStringEscape
                  end
                else
                  match simple_escape e with
                  | Some ch => lex_string_body fuel' (advance lx 2 r') start_col (ch :: acc)
                  | None => error_at lx (lx_col lx) EInvalidStringEscape
                  end
            end
          else if c <=? 31 then error_at lx (lx_col lx) EInvalidChrInString
          else lex_string_body fuel' (advance lx 1 r) start_col (c :: acc)
      end
  end.

(* fn lex_string -> Result<Option<String>, ParseError> *)
Definition lex_string (lx : lexer) : res (option (str * lexer)) :=
  match eat_char 34 lx with
  | None => Ok None
  | Some lx1 =>
      do r <- lex_string_body (S (length (lx_rem lx1))) lx1 (lx_col lx1) [];
      Ok (Some r)
  end.

(* ---- the parser ---------------------------------------------------------- *)

Inductive sitem :=
| SArr (items : list jvalue)                         (* reversed *)
| SObj (fields : list (str * jvalue)) (key : str).   (* fields reversed *)

Fixpoint str_eqb (a b : str) : bool :=
  match a, b with
  | [], [] => true
  | x :: a', y :: b' => (x =? y) && str_eqb a' b'
  | _, _ => false
  end.

Definition has_key (k : str) (fields : list (str * jvalue)) : bool :=
  existsb (fun kv => str_eqb k (fst kv)) fields.

(* the key part of an object: lex_string or ExpectedObjectKey; skip; ':'; skip *)
Definition lex_key (lx : lexer) : res (str * lexer) :=
  do ok <- lex_string lx;
  match ok with
  | None => get_error lx EExpectedObjectKey
  | Some (k, lx1) =>
      let lx2 := skip_spaces lx1 in
      match eat_char 58 lx2 with
      | None => get_error lx2 (EExpected1 58)
      | Some lx3 => Ok (k, skip_spaces lx3)
      end
  end.

Inductive start_res :=
| SVValue (v : jvalue) (lx : lexer)
| SVPush (it : sitem) (lx : lexer).

(* the first half of the outer loop body: one value, or the opening of a container *)
Definition start_value (lx : lexer) : res start_res :=
  match eat_str [110; 117; 108; 108] lx with
  | Some lx1 => Ok (SVValue JNull (skip_spaces lx1))
  | None =>
  match eat_str [102; 97; 108; 115; 101] lx with
  | Some lx1 => Ok (SVValue (JBool false) (skip_spaces lx1))
  | None =>
  match eat_str [116; 114; 117; 101] lx with
  | Some lx1 => Ok (SVValue (JBool true) (skip_spaces lx1))
  | None =>
  do on <- lex_number lx;
  match on with
  | Some (x, lx1) => Ok (SVValue (JNum x) (skip_spaces lx1))
  | None =>
  do os <- lex_string lx;
  match os with
  | Some (s, lx1) => Ok (SVValue (JStr s) (skip_spaces lx1))
  | None =>
  match eat_char 91 lx with
  | Some lx1 =>
      let lx2 := skip_spaces lx1 in
      match eat_char 93 lx2 with
      | Some lx3 => Ok (SVValue (JArr []) (skip_spaces lx3))
      | None => Ok (SVPush (SArr []) lx2)
      end
  | None =>
  match eat_char 123 lx with
  | Some lx1 =>
      let lx2 := skip_spaces lx1 in
      match eat_char 125 lx2 with
      | Some lx3 => Ok (SVValue (JObj []) (skip_spaces lx3))
      | None => do kl <- lex_key lx2; Ok (SVPush (SObj [] (fst kl)) (snd kl))
      end
  | None => get_error lx EExpectedValue
  end end end end end end end.

Inductive unwind_res :=
| UDone (r : res jvalue)
| UCont (lx : lexer) (st : list sitem).

(* the inner loop: pop finished containers *)
Fixpoint unwind (lx : lexer) (st : list sitem) (v : jvalue) : unwind_res :=
  match st with
  | [] => match lx_rem lx with
          | [] => UDone (Ok v)
          | _ => UDone (get_error lx EExpectedEof)
          end
  | SArr items :: st' =>
      let items := v :: items in
      match eat_char 93 lx with
      | Some lx1 => unwind (skip_spaces lx1) st' (JArr (rev items))
      | None =>
          match eat_char 44 lx with
          | Some lx1 => UCont (skip_spaces lx1) (SArr items :: st')
          | None => UDone (get_error lx (EExpected2 93 44))
          end
      end
  | SObj fields key :: st' =>
      if has_key key fields then UDone (get_error lx (ERepeatedFieldName key))
      else
        let fields := (key, v) :: fields in
        match eat_char 125 lx with
        | Some lx1 => unwind (skip_spaces lx1) st' (JObj (rev fields))
        | None =>
            match eat_char 44 lx with
            | Some lx1 =>
                match lex_key (skip_spaces lx1) with
                | Ok (k, lx2) => UCont lx2 (SObj fields k :: st')
                | Err e => UDone (Err e)
                | Panic s => UDone (Panic s)
                | OutOfFuel => UDone OutOfFuel
                end
            | None => UDone (get_error lx (EExpected2 125 44))
            end
        end
  end.

Fixpoint parse_loop (fuel : nat) (lx : lexer) (st : list sitem) : res jvalue :=
  match fuel with
  | O => OutOfFuel
  | S fuel' =>
      do sv <- start_value lx;
      match sv with
      | SVPush it lx1 => parse_loop fuel' lx1 (it :: st)
      | SVValue v lx1 =>
          match unwind lx1 st v with
          | UDone r => r
          | UCont lx2 st2 => parse_loop fuel' lx2 st2
          end
      end
  end.

(* fn parse_json *)
Definition parse_json (s : str) : res jvalue :=
  parse_loop (S (length s)) (skip_spaces {| lx_line := 0; lx_col := 0; lx_rem := s |}) [].

(* ---- a minimal printer (the reference for the round-trip theorem) -------- *)

Definition jhex_digit (d : N) : N := if d <? 10 then 48 + d else 87 + d.
Definition print_char (c : N) : str :=
  if c =? 34 then [92; 34]
  else if c =? 92 then [92; 92]
  else if c <? 32 then [92; 117; 48; 48; jhex_digit (c / 16); jhex_digit (c mod 16)]
  else [c].
Definition print_string (s : str) : str := 34 :: flat_map print_char s ++ [34].
