(* Model/TraceLen.v — the trace-length accounting of the explicit-stack
   evaluator (rsjsonnet-lang/src/program/eval/mod.rs), as written.

   Rust side being modelled:
     stack_trace_len: usize                      -> [len : N]
     state_stack: Vec<State>                     -> [stack : list item], head = top
     State::TraceItem(_) / State::DelayedTraceItem / every other State
                                                 -> [Trace id] / [Delayed] / [Other]
     fn push_trace_item   { state_stack.push(TraceItem(item)); inc_trace_len() }
     fn delay_trace_item  { state_stack.push(DelayedTraceItem); dec_trace_len() }
     fn inc_trace_len     { stack_trace_len += 1 }
     fn dec_trace_len     { stack_trace_len = stack_trace_len.checked_sub(1).unwrap() }
     fn run: while let Some(state) = state_stack.pop() { match state {
                 TraceItem(_) => dec_trace_len(), DelayedTraceItem => inc_trace_len(),
                 other => <handler: pushes a word of states; may fail with report_error> }
               if stack_trace_len > program.max_stack { return Err(report_error(StackOverflow)) } }
     fn get_stack_trace: for item in state_stack.iter() (bottom-up) { TraceItem => push,
                 DelayedTraceItem => stack_trace.pop().unwrap(), _ => {} }
     fn eval: pushes the initial states, run()?, assert_eq!(stack_trace_len, 0),
                 assert!(state_stack.is_empty())

   What a handler does to the other stacks (values, strings, ...) is not part
   of this model: a handler is abstracted to the word of states it pushes, in
   push order, and to whether it then fails.  Which words handlers can push is
   read from the source by tools/translate_tracepush.py (Gen/TraceWords.v).

   [usize] arithmetic: [+= 1] cannot wrap before 2^64 pushes; [len] is an
   unbounded [N] (recorded as an assumption of the check). *)
From RJ Require Import Base.Outcome.
Local Open Scope N_scope.
Local Open Scope outcome_scope.

Inductive item := Trace (id : N) | Delayed | Other.

Record tstate := { stack : list item; len : N }.

Definition empty_state : tstate := {| stack := []; len := 0 |}.

(* errors of a run; both carry the stack trace computed by report_error *)
Inductive terr := StackOverflow (trace : list N) | HandlerError (trace : list N).
Notation res A := (outcome A terr).

Definition push_state (i : item) (s : tstate) : tstate :=
  {| stack := i :: stack s; len := len s |}.

Definition inc_trace_len (s : tstate) : tstate :=
  {| stack := stack s; len := len s + 1 |}.

Definition dec_trace_len (s : tstate) : res tstate :=
  if len s =? 0 then Panic "eval/mod.rs:dec_trace_len:checked_sub(1).unwrap()"
  else Ok {| stack := stack s; len := len s - 1 |}.

Definition push_trace_item (id : N) (s : tstate) : tstate :=
  inc_trace_len (push_state (Trace id) s).

Definition delay_trace_item (s : tstate) : res tstate :=
  dec_trace_len (push_state Delayed s).

(* one push performed by a handler *)
Definition push_item (i : item) (s : tstate) : res tstate :=
  match i with
  | Trace id => Ok (push_trace_item id s)
  | Delayed => delay_trace_item s
  | Other => Ok (push_state Other s)
  end.

(* the word a handler pushes, in push order *)
Fixpoint push_word (w : list item) (s : tstate) : res tstate :=
  match w with
  | [] => Ok s
  | i :: r => do s' <- push_item i s; push_word r s'
  end.

(* fn get_stack_trace: bottom-up walk; [tr] has the most recent entry first *)
Fixpoint walk (l : list item) (tr : list N) : res (list N) :=
  match l with
  | [] => Ok tr
  | Trace id :: r => walk r (id :: tr)
  | Delayed :: r =>
      match tr with
      | [] => Panic "eval/mod.rs:get_stack_trace:stack_trace.pop().unwrap()"
      | _ :: tr' => walk r tr'
      end
  | Other :: r => walk r tr
  end.

Definition get_stack_trace (s : tstate) : res (list N) :=
  do tr <- walk (rev (stack s)) []; Ok (rev tr).

(* what the handler of an ordinary state does: push [w]; then fail or not *)
Inductive action := Act (w : list item) (fail : bool).

(* one iteration of the loop of [run] (no-op on an empty state stack: the loop
   has ended) *)
Definition step (max : N) (a : action) (s : tstate) : res tstate :=
  match stack s with
  | [] => Ok s
  | top :: rest =>
      let s0 := {| stack := rest; len := len s |} in
      do s1 <- match top with
               | Trace _ => dec_trace_len s0
               | Delayed => Ok (inc_trace_len s0)
               | Other =>
                   let '(Act w fail) := a in
                   do s' <- push_word w s0;
                   if fail then (do tr <- get_stack_trace s'; Err (HandlerError tr))
                   else Ok s'
               end;
      if max <? len s1 then (do tr <- get_stack_trace s1; Err (StackOverflow tr))
      else Ok s1
  end.

Fixpoint run (max : N) (script : list action) (s : tstate) : res tstate :=
  match script with
  | [] => Ok s
  | a :: r => do s' <- step max a s; run max r s'
  end.

(* fn eval: initial pushes, the loop, the final asserts.  A script that ends
   before the state stack is empty is [OutOfFuel]. *)
Definition eval_run (max : N) (init : list item) (script : list action) : res tstate :=
  do s0 <- push_word init empty_state;
  do s <- run max script s0;
  match stack s with
  | [] => if len s =? 0 then Ok s
          else Panic "eval/mod.rs:eval:assert_eq!(stack_trace_len, 0)"
  | _ => OutOfFuel
  end.

(* ---- words and their balance ---- *)

Definition weight (i : item) : Z :=
  match i with Trace _ => 1%Z | Delayed => (-1)%Z | Other => 0%Z end.

Fixpoint net (w : list item) : Z :=
  match w with [] => 0%Z | i :: r => (weight i + net r)%Z end.

(* "T-before-D": every prefix of the word has at least as many Trace as Delayed *)
Fixpoint balanced_from (acc : Z) (w : list item) : bool :=
  match w with
  | [] => true
  | i :: r => let acc' := (acc + weight i)%Z in (0 <=? acc')%Z && balanced_from acc' r
  end.
Definition balanced (w : list item) : bool := balanced_from 0 w.

Definition action_word (a : action) : list item := let '(Act w _) := a in w.

(* ---- the structured description of what a handler may push ----
   One tree per handler block of the source, produced by the translator:
   sequence, optional block (if / else / match arm / plain block), loop body
   (for / while / loop), and the three kinds of push.  An early exit
   (return, `?`, break, continue) may happen anywhere. *)
Inductive sym := ST | SD | SO.
Inductive tree :=
| TEmp
| TSym (s : sym)
| TSeq (a b : tree)
| TOpt (a : tree)
| TStar (a : tree).

(* lower bounds: [c] on the net of every word of a normally completed
   execution, [p] on every prefix sum of every word (completed or exited
   early).  [None] = unbounded below (a loop body that can lose a frame). *)
Fixpoint analyse (t : tree) : option (Z * Z) :=
  match t with
  | TEmp => Some (0, 0)%Z
  | TSym ST => Some (1, 0)%Z
  | TSym SD => Some (-1, -1)%Z
  | TSym SO => Some (0, 0)%Z
  | TSeq a b =>
      match analyse a, analyse b with
      | Some (ca, pa), Some (cb, pb) => Some (ca + cb, Z.min pa (ca + pb))%Z
      | _, _ => None
      end
  | TOpt a =>
      match analyse a with
      | Some (ca, pa) => Some (Z.min 0 ca, pa)
      | None => None
      end
  | TStar a =>
      match analyse a with
      | Some (ca, pa) => if (pa <? 0)%Z then None else Some (0, 0)%Z
      | None => None
      end
  end.

Definition tree_balanced (t : tree) : bool :=
  match analyse t with
  | Some (_, p) => (0 <=? p)%Z
  | None => false
  end.

(* upper bound on the net of the word of a handler that runs to completion
   (an error exit ends the evaluation; the translator refuses non-error early
   exits in functions that push trace items): how far one handler can raise
   the counter before the overflow test runs.  [None] = unbounded (a loop
   that gains a frame per iteration). *)
Fixpoint gain (t : tree) : option Z :=
  match t with
  | TEmp => Some 0%Z
  | TSym ST => Some 1%Z
  | TSym SD => Some (-1)%Z
  | TSym SO => Some 0%Z
  | TSeq a b =>
      match gain a, gain b with
      | Some ga, Some gb => Some (ga + gb)%Z
      | _, _ => None
      end
  | TOpt a =>
      match gain a with
      | Some ga => Some (Z.max 0 ga)
      | None => None
      end
  | TStar a =>
      match gain a with
      | Some ga => if (0 <? ga)%Z then None else Some 0%Z
      | None => None
      end
  end.

Definition gain_at_most (g : Z) (t : tree) : bool :=
  match gain t with Some x => (x <=? g)%Z | None => false end.

(* ---- a driver for the extracted model: a compact script format ----
   ops are N codes: 0 = Other, 1 = Delayed, n+2 = Trace n *)
Definition item_of_code (c : N) : item :=
  match c with 0 => Other | 1 => Delayed | _ => Trace (c - 2) end.

Inductive obs :=
| ObsOk (l : N) (depth : N) (trace : list N)
| ObsOverflow (trace : list N)
| ObsHandlerError (trace : list N)
| ObsPanic
| ObsUnfinished.

Definition observe (max : N) (init : list N) (script : list (list N * bool)) : obs :=
  let acts := map (fun p => Act (map item_of_code (fst p)) (snd p)) script in
  match (do s0 <- push_word (map item_of_code init) empty_state; run max acts s0) with
  | Ok s => match get_stack_trace s with
            | Ok tr => ObsOk (len s) (N.of_nat (length (stack s))) tr
            | _ => ObsPanic
            end
  | Err (StackOverflow tr) => ObsOverflow tr
  | Err (HandlerError tr) => ObsHandlerError tr
  | Panic _ => ObsPanic
  | OutOfFuel => ObsUnfinished
  end.

(* ---- which words a tree stands for ----
   [exec t w early]: running the block [t] pushes the word [w]; [early = true]
   when control left the block through return / `?` / break / continue. *)
Definition item_of_sym (s : sym) (id : N) : item :=
  match s with ST => Trace id | SD => Delayed | SO => Other end.

Inductive exec : tree -> list item -> bool -> Prop :=
| ex_exit : forall t, exec t [] true
| ex_emp : exec TEmp [] false
| ex_sym : forall s id, exec (TSym s) [item_of_sym s id] false
| ex_seq_exit : forall a b w, exec a w true -> exec (TSeq a b) w true
| ex_seq : forall a b w1 w2 f, exec a w1 false -> exec b w2 f -> exec (TSeq a b) (w1 ++ w2) f
| ex_opt_skip : forall a, exec (TOpt a) [] false
| ex_opt : forall a w f, exec a w f -> exec (TOpt a) w f
| ex_star_done : forall a, exec (TStar a) [] false
| ex_star_iter : forall a w1 f1 w2 f2,
    exec a w1 f1 -> exec (TStar a) w2 f2 -> exec (TStar a) (w1 ++ w2) f2
| ex_star_exit : forall a w, exec a w true -> exec (TStar a) w true.

(* executions that run to completion (no early exit) *)
Inductive execc : tree -> list item -> Prop :=
| exc_emp : execc TEmp []
| exc_sym : forall s id, execc (TSym s) [item_of_sym s id]
| exc_seq : forall a b w1 w2, execc a w1 -> execc b w2 -> execc (TSeq a b) (w1 ++ w2)
| exc_opt_skip : forall a, execc (TOpt a) []
| exc_opt : forall a w, execc a w -> execc (TOpt a) w
| exc_star_done : forall a, execc (TStar a) []
| exc_star_iter : forall a w1 w2, execc a w1 -> execc (TStar a) w2 -> execc (TStar a) (w1 ++ w2).

(* ---- the call graph of the evaluator sources (Gen/EvalCallGraph.v) ----
   nodes are numbered by the translator; the check is that every callee has a
   smaller number than its caller, i.e. the numbering is a topological order,
   which only an acyclic graph admits. *)
Definition graph := list (N * list N).
Definition graph_topo (g : graph) : bool :=
  forallb (fun p => forallb (fun j => j <? fst p) (snd p)) g.
Definition edge (g : graph) (a b : N) : Prop :=
  exists succs, In (a, succs) g /\ In b succs.

(* ---- tail positions (Gen/TailPos.v, read from analyze.rs) ----
   A `tailstrict` call keeps no Call frame only where the analyzer says the
   call "can be tailstrict".  The specification: the flag is [TTrue] for a
   function body, passed through ([TPass]) to then / else of `if`, to the body
   of `local` and to the body of `assert`, the parameter of the analyzer at
   its root ([TRoot]) — and [TFalse] everywhere else. *)
Inductive tailflag := TFalse | TTrue | TPass | TRoot.

Definition tailflag_eqb (a b : tailflag) : bool :=
  match a, b with
  | TFalse, TFalse | TTrue, TTrue | TPass, TPass | TRoot, TRoot => true
  | _, _ => false
  end.

Definition tail_site := (string * string * tailflag)%type.

Definition tail_site_eqb (a b : tail_site) : bool :=
  let '(c1, s1, f1) := a in let '(c2, s2, f2) := b in
  (String.eqb c1 c2 && String.eqb s1 s2 && tailflag_eqb f1 f2)%bool.

Fixpoint tail_sites_eqb (l1 l2 : list tail_site) : bool :=
  match l1, l2 with
  | [], [] => true
  | a :: r1, b :: r2 => tail_site_eqb a b && tail_sites_eqb r1 r2
  | _, _ => false
  end.

Definition tail_sites_spec : list tail_site :=
  [("fn analyze_expr", "root_expr_ast", TRoot);
   ("Local", "inner_ast", TPass);
   ("If", "then_body_ast", TPass);
   ("If", "e", TPass);
   ("Assert", "inner_ast", TPass);
   ("fn analyze_function", "body_ast", TTrue)]%string.

Definition tail_sites_ok (sites : list tail_site) : bool :=
  tail_sites_eqb
    (filter (fun s => negb (tailflag_eqb (snd s) TFalse)) sites) tail_sites_spec
  && existsb (fun s => tail_site_eqb s ("If", "cond_ast", TFalse)%string) sites.
