(* Model/Sort.v — std.sort as coded in
   rsjsonnet-lang/src/program/eval/stdlib.rs (do_std_sort, do_std_sort_slice,
   do_std_sort_quick_sort_1/2, do_std_sort_merge_prepare/pre_compare/
   post_compare, do_std_sort_finish).

   The Rust code sorts a vector [sorted] of indices into the original array,
   comparing cached keys [keys[i]] with the evaluator's CompareValue state.
   The explicit state machine is rendered functionally, keeping
     - the length<=1 shortcut that never calls keyF,
     - all keys evaluated first, in index order,
     - the 30-element threshold (merge sort above, quick sort below),
     - mid = start + len/2, left half sorted before the right half,
     - quick sort: first element is the pivot, every other item is compared
       with it (item on the left, pivot on the right, in slice order) BEFORE
       anything is moved, items with [is_lt] go left in order, the others right
       in order, the "<" part is sorted before the ">=" part, sub-slices of
       length <= 1 are not visited, [assert!(len > 1)] is a Panic site,
     - merge: compare left head with right head, take left on [is_le],
       copy the rest when one side is exhausted,
     - the order in which comparisons happen (so that the FIRST error is the
       one reported), errors of keyF / of the comparison propagate.
   No proofs here (Proofs/Sort_proofs.v). *)
From RJ Require Import Base.Outcome.
Local Open Scope outcome_scope.

Definition is_lt (c : comparison) : bool := match c with Lt => true | _ => false end.
Definition is_le (c : comparison) : bool := match c with Gt => false | _ => true end.
Definition is_gt (c : comparison) : bool := match c with Gt => true | _ => false end.

Section MapM.
  Context {A B E : Type}.
  (* left-to-right evaluation, first failure wins *)
  Fixpoint mapM (f : A -> outcome B E) (l : list A) : outcome (list B) E :=
    match l with
    | [] => Ok []
    | x :: r => do y <- f x; do ys <- mapM f r; Ok (y :: ys)
    end.
End MapM.

Section SortCore.
  Variables (X E : Type).
  Variable cmp : X -> X -> outcome comparison E.

  (* do_std_sort_quick_sort_2: the drained comparison results zipped with the
     items after the pivot *)
  Fixpoint split_ords (ords : list comparison) (items : list X) : list X * list X :=
    match ords, items with
    | o :: ords', it :: items' =>
        let '(lt, ge) := split_ords ords' items' in
        if is_lt o then (it :: lt, ge) else (lt, it :: ge)
    | _, _ => ([], [])
    end.

  (* StdSortQuickSort1 + StdSortQuickSort2 on one range *)
  Fixpoint quick (fuel : nat) (l : list X) : outcome (list X) E :=
    match fuel with
    | O => OutOfFuel
    | S f =>
        match l with
        | [] | [_] => Panic "stdlib.rs:do_std_sort_quick_sort_1:assert!(len > 1)"
        | pivot :: items =>
            do ords <- mapM (fun it => cmp it pivot) items;
            let '(lt, ge) := split_ords ords items in
            do lt' <- (if 1 <? length lt then quick f lt else Ok lt);
            do ge' <- (if 1 <? length ge then quick f ge else Ok ge);
            Ok (lt' ++ pivot :: ge')
        end
    end.

  (* StdSortMergePreCompare / PostCompare *)
  Fixpoint merge (l1 : list X) : list X -> outcome (list X) E :=
    fix merge_aux (l2 : list X) : outcome (list X) E :=
      match l1, l2 with
      | [], _ => Ok l2
      | _, [] => Ok l1
      | a1 :: l1', a2 :: l2' =>
          do c <- cmp a1 a2;
          if is_le c
          then (do r <- merge l1' l2; Ok (a1 :: r))
          else (do r <- merge_aux l2'; Ok (a2 :: r))
      end.

  (* StdSortSlice *)
  Fixpoint sort_slice (fuel : nat) (l : list X) : outcome (list X) E :=
    match fuel with
    | O => OutOfFuel
    | S f =>
        let len := length l in
        if 30 <? len then
          let mid := Nat.div len 2 in
          do a <- sort_slice f (firstn mid l);
          do b <- sort_slice f (skipn mid l);
          merge a b
        else if 1 <? len then quick len l
        else Ok l
    end.

  Definition sort_list (l : list X) : outcome (list X) E := sort_slice (S (length l)) l.
End SortCore.

Arguments split_ords {X} ords items.
Arguments quick {X E} cmp fuel l.
Arguments merge {X E} cmp l1 l2.
Arguments sort_slice {X E} cmp fuel l.
Arguments sort_list {X E} cmp l.

Section StdSort.
  Variables (A K E : Type).
  Variable keyf : A -> outcome K E.
  Variable cmp : K -> K -> outcome comparison E.

  Definition key_at (keys : list K) (i : nat) : outcome K E :=
    match nth_error keys i with
    | Some k => Ok k
    | None => Panic "stdlib.rs:do_std_sort_compare:keys[i].get().unwrap()"
    end.

  (* StdSortCompare / the pushes of do_std_sort_merge_pre_compare *)
  Definition cmp_idx (keys : list K) (i j : nat) : outcome comparison E :=
    do a <- key_at keys i; do b <- key_at keys j; cmp a b.

  (* StdSortSlice { range: 0..array_len } over sorted = [0, 1, .., n-1] *)
  Definition sort_idx (keys : list K) : outcome (list nat) E :=
    sort_list (cmp_idx keys) (seq 0 (length keys)).

  Definition elem_at (arr : list A) (i : nat) : outcome A E :=
    match nth_error arr i with
    | Some a => Ok a
    | None => Panic "stdlib.rs:do_std_sort_finish:orig_array[i]"
    end.

  (* the permutation std.sort applies (what the correspondence check compares) *)
  Definition std_sort_perm (arr : list A) : outcome (list nat) E :=
    if length arr <=? 1 then Ok (seq 0 (length arr))
    else do keys <- mapM keyf arr; sort_idx keys.

  (* do_std_sort + do_std_sort_finish *)
  Definition std_sort (arr : list A) : outcome (list A) E :=
    if length arr <=? 1 then Ok arr
    else do keys <- mapM keyf arr;
         do p <- sort_idx keys;
         mapM (elem_at arr) p.
End StdSort.

Arguments key_at {K E} keys i.
Arguments cmp_idx {K E} cmp keys i j.
Arguments sort_idx {K E} cmp keys.
Arguments elem_at {A E} arr i.
Arguments std_sort_perm {A K E} keyf cmp arr.
Arguments std_sort {A K E} keyf cmp arr.

(* ------------------------------------------------------------------ *)
(* Wire instance used by the correspondence check: a key is
   (type, rank within the type, trap) where type is the EvalErrorValueType
   ordinal (0 null, 1 bool, 2 number, 3 string, 4 array, 5 object, 6 function),
   rank is the position of the value among the values of that type in the
   case (computed by the generator), and trap <> 0 marks a key of the form
   [k, error "T<trap>"]: comparing two such keys with equal k forces the
   second element of the LEFT one, which raises that error. *)
Inductive werr : Type :=
| EDiff (lhs rhs : N)     (* CompareDifferentTypesInequality *)
| ESame (ty : N)          (* CompareNull/Boolean/ObjectInequality, CompareFunctions *)
| EUser (id : N).         (* ExplicitError raised by keyF or by a trapped key *)

Definition wkey : Type := (N * N * N)%type.

Definition wcmp (a b : wkey) : outcome comparison werr :=
  let '(ta, ra, pa) := a in
  let '(tb, rb, pb) := b in
  if negb (N.eqb ta tb) then Err (EDiff ta tb)
  else if (N.eqb ta 2 || N.eqb ta 3 || N.eqb ta 4)%bool then
    match N.compare ra rb with
    | Eq => if N.eqb pa 0 then Ok Eq else Err (EUser pa)
    | c => Ok c
    end
  else Err (ESame ta).

(* EqualsValue on the same keys: different types are unequal, functions fail *)
Definition weqv (a b : wkey) : outcome bool werr :=
  let '(ta, ra, pa) := a in
  let '(tb, rb, pb) := b in
  if negb (N.eqb ta tb) then Ok false
  else if N.eqb ta 6 then Err (ESame 6)
  else if N.eqb ra rb then (if N.eqb pa 0 then Ok true else Err (EUser pa))
  else Ok false.

(* keyF on element #i of a case: the i-th scripted key outcome *)
Definition wkeyf (kouts : list (outcome wkey werr)) (i : nat) : outcome wkey werr :=
  match nth_error kouts i with
  | Some o => o
  | None => Panic "driver:wkeyf:index"
  end.

Definition run_sort (kouts : list (outcome wkey werr)) : outcome (list nat) werr :=
  std_sort (wkeyf kouts) wcmp (seq 0 (length kouts)).
