(* Model/Utf8.v — (1) literal model of the UTF-8 decoding done by the lexer
   (rsjsonnet-lang/src/lexer/mod.rs: decode_cont_char / eat_cont_any_char /
   eat_any_char) and (2) an INDEPENDENT specification [lossy] of lossy UTF-8
   decoding: a byte-at-a-time automaton driven by Unicode's Table 3-7
   ("Well-Formed UTF-8 Byte Sequences"), emitting one U+FFFD per maximal
   ill-formed subpart (what String::from_utf8_lossy does), and (3) the textbook
   encoder [utf8_encode] used to sanity-check the specification.

   Bytes and code points are [N].  No proofs here. *)
From RJ Require Import Base.Outcome.
Local Open Scope N_scope.
Local Open Scope outcome_scope.

Definition in_range (lo hi b : N) : bool := (lo <=? b) && (b <=? hi).

(* char::from_u32: Some for Unicode scalar values only *)
Definition is_scalar (cp : N) : bool :=
  (cp <? 0xD800) || ((0xDFFF <? cp) && (cp <=? 0x10FFFF)).

Definition replacement : N := 0xFFFD.

(* ------------------------------------------------------------------ *)
(* (1) the code as written                                             *)

(* fn safe_get(xs, i) = *xs.get(i).unwrap_or(&0) *)
Definition safe_get (xs : list N) (i : nat) : N := nth i xs 0.

(* byteN & 192 == TAG_CONT_U8 *)
Definition is_cont (b : N) : bool := N.land b 192 =? 128.

(* char::from_u32(cp).unwrap() *)
Definition from_u32_unwrap {E} (cp : N) : outcome N E :=
  if is_scalar cp then Ok cp
  else Panic "lexer/mod.rs:decode_cont_char:char::from_u32(cp).unwrap()".

(* the lead-byte arm of the 2-byte case: 0xC2..=0xDF since the repair of the
   C0/C1 defect (the pinned tree had 0b11000000..=0b11011111, which accepted the
   overlong lead bytes C0 and C1) *)
Definition lead2_lo : N := 0xC2.
Definition lead2_hi : N := 0xDF.

(* the accepting (byte0, byte1) arms of the 3-byte and 4-byte cases:
   (byte0 lo, byte0 hi, byte1 lo, byte1 hi) *)
Definition second3_table : list (N * N * N * N) :=
  [ (0xE0, 0xE0, 0xA0, 0xBF); (0xE1, 0xEC, 0x80, 0xBF); (0xED, 0xED, 0x80, 0x9F); (0xEE, 0xEF, 0x80, 0xBF) ].
Definition second4_table : list (N * N * N * N) :=
  [ (0xF0, 0xF0, 0x90, 0xBF); (0xF1, 0xF3, 0x80, 0xBF); (0xF4, 0xF4, 0x80, 0x8F) ].

Definition pair_ok (tbl : list (N * N * N * N)) (b0 b1 : N) : bool :=
  existsb (fun '(a, b, c, d) => in_range a b b0 && in_range c d b1) tbl.
Definition second3_ok := pair_ok second3_table.
Definition second4_ok := pair_ok second4_table.

(* the four lead-byte range arms, in source order *)
Definition lead_table : list (N * N) :=
  [ (0x00, 0x7F); (lead2_lo, lead2_hi); (0xE0, 0xEF); (0xF0, 0xF7) ].

(* fn decode_cont_char(&self, byte0) -> (usize, Option<char>)
   [rest] = self.input[self.end_pos..] (byte0 already consumed); the first
   component is the number of FURTHER bytes consumed (i - self.end_pos). *)
Definition decode_cont_char {E} (b0 : N) (rest : list N) : outcome (nat * option N) E :=
  if b0 <=? 0x7F then Ok (0%nat, Some b0)
  else if in_range lead2_lo lead2_hi b0 then
    let b1 := safe_get rest 0 in
    if negb (is_cont b1) then Ok (0%nat, None)
    else
      do c <- from_u32_unwrap (N.lor (N.shiftl (N.land b0 31) 6) (N.land b1 63));
      Ok (1%nat, Some c)
  else if in_range 0xE0 0xEF b0 then
    let b1 := safe_get rest 0 in
    if negb (second3_ok b0 b1) then Ok (0%nat, None)
    else
      let b2 := safe_get rest 1 in
      if negb (is_cont b2) then Ok (1%nat, None)
      else
        do c <- from_u32_unwrap
                  (N.lor (N.lor (N.shiftl (N.land b0 15) 12) (N.shiftl (N.land b1 63) 6))
                         (N.land b2 63));
        Ok (2%nat, Some c)
  else if in_range 0xF0 0xF7 b0 then
    let b1 := safe_get rest 0 in
    if negb (second4_ok b0 b1) then Ok (0%nat, None)
    else
      let b2 := safe_get rest 1 in
      if negb (is_cont b2) then Ok (1%nat, None)
      else
        let b3 := safe_get rest 2 in
        if negb (is_cont b3) then Ok (2%nat, None)
        else
          do c <- from_u32_unwrap
                    (N.lor (N.lor (N.lor (N.shiftl (N.land b0 7) 18) (N.shiftl (N.land b1 63) 12))
                                  (N.shiftl (N.land b2 63) 6))
                           (N.land b3 63));
          Ok (3%nat, Some c)
  else Ok (0%nat, None).

(* the way every string-like scanner of the lexer uses eat_any_char: push the
   char, or U+FFFD on Err(_) *)
Fixpoint decode_all_fuel {E} (fuel : nat) (bs : list N) : outcome (list N) E :=
  match fuel with
  | O => OutOfFuel
  | S f =>
      match bs with
      | [] => Ok []
      | b0 :: rest =>
          do r <- decode_cont_char b0 rest;
          let '(k, oc) := r in
          do tl <- decode_all_fuel f (skipn k rest);
          Ok (match oc with Some c => c | None => replacement end :: tl)
      end
  end.

Definition decode_all {E} (bs : list N) : outcome (list N) E :=
  decode_all_fuel (S (length bs)) bs.

(* ------------------------------------------------------------------ *)
(* (2) the specification: Table 3-7 automaton                          *)

(* one row: first-byte range, value subtracted from the first byte, the
   allowed range of each trailing byte in order *)
Record row := { r_lo : N; r_hi : N; r_base : N; r_trail : list (N * N) }.

Definition cont_range : N * N := (0x80, 0xBF).

Definition table_3_7 : list row := [
  {| r_lo := 0x00; r_hi := 0x7F; r_base := 0x00; r_trail := [] |};
  {| r_lo := 0xC2; r_hi := 0xDF; r_base := 0xC0; r_trail := [cont_range] |};
  {| r_lo := 0xE0; r_hi := 0xE0; r_base := 0xE0; r_trail := [(0xA0, 0xBF); cont_range] |};
  {| r_lo := 0xE1; r_hi := 0xEC; r_base := 0xE0; r_trail := [cont_range; cont_range] |};
  {| r_lo := 0xED; r_hi := 0xED; r_base := 0xE0; r_trail := [(0x80, 0x9F); cont_range] |};
  {| r_lo := 0xEE; r_hi := 0xEF; r_base := 0xE0; r_trail := [cont_range; cont_range] |};
  {| r_lo := 0xF0; r_hi := 0xF0; r_base := 0xF0; r_trail := [(0x90, 0xBF); cont_range; cont_range] |};
  {| r_lo := 0xF1; r_hi := 0xF3; r_base := 0xF0; r_trail := [cont_range; cont_range; cont_range] |};
  {| r_lo := 0xF4; r_hi := 0xF4; r_base := 0xF0; r_trail := [(0x80, 0x8F); cont_range; cont_range] |}
].

Definition find_row (b : N) : option row :=
  find (fun r => in_range (r_lo r) (r_hi r) b) table_3_7.

(* automaton state: idle, or inside a sequence with the ranges still expected
   and the value accumulated so far *)
Inductive lstate := LIdle | LSeq (expect : list (N * N)) (acc : N).

Definition lossy_idle (b : N) : list N * lstate :=
  match find_row b with
  | None => ([replacement], LIdle)
  | Some r =>
      match r_trail r with
      | [] => ([b], LIdle)
      | tr => ([], LSeq tr (b - r_base r))
      end
  end.

Definition lossy_step (st : lstate) (b : N) : list N * lstate :=
  match st with
  | LIdle => lossy_idle b
  | LSeq [] acc => let '(out, st') := lossy_idle b in (acc :: out, st')
  | LSeq ((lo, hi) :: more) acc =>
      if in_range lo hi b then
        let acc' := acc * 64 + (b - 0x80) in
        match more with
        | [] => ([acc'], LIdle)
        | _ => ([], LSeq more acc')
        end
      else
        (* the sequence so far is a maximal ill-formed subpart: one U+FFFD,
           and [b] starts afresh *)
        let '(out, st') := lossy_idle b in (replacement :: out, st')
  end.

Fixpoint lossy_from (st : lstate) (bs : list N) : list N :=
  match bs with
  | [] => match st with LIdle => [] | LSeq _ _ => [replacement] end
  | b :: r => let '(out, st') := lossy_step st b in out ++ lossy_from st' r
  end.

Definition lossy (bs : list N) : list N := lossy_from LIdle bs.

(* ------------------------------------------------------------------ *)
(* (3) the textbook encoder (arithmetic form)                          *)

Definition utf8_encode (cp : N) : list N :=
  if cp <? 0x80 then [cp]
  else if cp <? 0x800 then [0xC0 + cp / 64; 0x80 + cp mod 64]
  else if cp <? 0x10000 then [0xE0 + cp / 4096; 0x80 + (cp / 64) mod 64; 0x80 + cp mod 64]
  else [0xF0 + cp / 262144; 0x80 + (cp / 4096) mod 64; 0x80 + (cp / 64) mod 64; 0x80 + cp mod 64].

Definition utf8_encode_all (s : list N) : list N := flat_map utf8_encode s.
