(* Model/Ast.v — mirror of rsjsonnet-lang/src/ast.rs (public AST).
   Constructor names carry a prefix so that extraction never clashes with the
   constructors of Coq's own [string]/[option]/... types. *)
From RJ Require Import Base.Outcome Model.Token.
Local Open Scope N_scope.

Record ident := { id_value : str; id_span : span }.

Inductive visibility := VisDefault | VisHidden | VisForceVisible.

Inductive binary_op :=
| BAdd | BSub | BMul | BDiv | BRem | BShl | BShr | BLt | BLe | BGt | BGe | BEq | BNe | BIn
| BBitwiseAnd | BBitwiseOr | BBitwiseXor | BLogicAnd | BLogicOr.

Inductive unary_op := UMinus | UPlus | UBitwiseNot | ULogicNot.

(* pub struct Expr { kind, span } — the span is the first argument of every node *)
Inductive expr :=
| ENull (sp : span)
| EBool (sp : span) (b : bool)
| ESelf (sp : span)
| EDollar (sp : span)
| EString (sp : span) (s : str)
| ETextBlock (sp : span) (s : str)
| ENumber (sp : span) (n : number)
| EParen (sp : span) (e : expr)
| EObject (sp : span) (o : obj_inside)
| EArray (sp : span) (items : list expr)
| EArrayComp (sp : span) (e : expr) (specs : list comp_spec)
| EField (sp : span) (e : expr) (name : ident)
| EIndex (sp : span) (e : expr) (i : expr)
| ESlice (sp : span) (e : expr) (a b c : option expr)
| ESuperField (sp : span) (super_sp : span) (name : ident)
| ESuperIndex (sp : span) (super_sp : span) (i : expr)
| ECall (sp : span) (f : expr) (args : list arg) (tailstrict : bool)
| EIdent (sp : span) (name : ident)
| ELocal (sp : span) (binds : list bind) (body : expr)
| EIf (sp : span) (c t : expr) (e : option expr)
| EBinary (sp : span) (l : expr) (op : binary_op) (r : expr)
| EUnary (sp : span) (op : unary_op) (e : expr)
| EObjExt (sp : span) (e : expr) (o : obj_inside) (obj_sp : span)
| EFunc (sp : span) (params : list param) (body : expr)
| EAssert (sp : span) (a : assert_) (body : expr)
| EImport (sp : span) (e : expr)
| EImportStr (sp : span) (e : expr)
| EImportBin (sp : span) (e : expr)
| EError (sp : span) (e : expr)
| EInSuper (sp : span) (e : expr) (super_sp : span)

with obj_inside :=
| OMembers (ms : list member)
| OComp (locals1 : list bind) (name : expr) (plus : bool) (body : expr)
        (locals2 : list bind) (specs : list comp_spec)

with member :=
| MLocal (b : bind)
| MAssert (a : assert_)
| MField (f : field)

with field :=
| FValue (name : field_name) (plus : bool) (vis : visibility) (value : expr)
| FFunc (name : field_name) (params : list param) (params_sp : span) (vis : visibility) (value : expr)

with field_name :=
| FnIdent (i : ident)
| FnString (s : str) (sp : span)
| FnExpr (e : expr) (sp : span)

with comp_spec :=
| CFor (var : ident) (inner : expr)
| CIf (cond : expr)

with assert_ :=
| MkAssert (sp : span) (cond : expr) (msg : option expr)

with bind :=
| MkBind (name : ident) (params : option (list param * span)) (value : expr)

with arg :=
| APositional (e : expr)
| ANamed (name : ident) (e : expr)

with param :=
| MkParam (name : ident) (default : option expr).

Definition expr_span (e : expr) : span :=
  match e with
  | ENull sp | EBool sp _ | ESelf sp | EDollar sp | EString sp _ | ETextBlock sp _ | ENumber sp _
  | EParen sp _ | EObject sp _ | EArray sp _ | EArrayComp sp _ _ | EField sp _ _ | EIndex sp _ _
  | ESlice sp _ _ _ _ | ESuperField sp _ _ | ESuperIndex sp _ _ | ECall sp _ _ _ | EIdent sp _
  | ELocal sp _ _ | EIf sp _ _ _ | EBinary sp _ _ _ | EUnary sp _ _ | EObjExt sp _ _ _
  | EFunc sp _ _ | EAssert sp _ _ | EImport sp _ | EImportStr sp _ | EImportBin sp _
  | EError sp _ | EInSuper sp _ _ => sp
  end.
