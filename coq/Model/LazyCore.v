(* Model/LazyCore.v — a lazy core calculus that is a real fragment of Jsonnet,
   with a fuel-indexed, environment-passing CALL-BY-NAME evaluator.

   Fragment: null / booleans / integer numbers (doubles that are exact integers
   of magnitude <= 2^53; anything beyond is reported [OutOfFragment], never
   guessed) / strings (code-point lists), variables, [local] with mutually
   recursive binds, functions with positional parameters and defaults,
   application, arrays and indexing, single-level objects with fields
   ([:] and [::]) and [self], field access, [if], [error e], [+] on
   numbers / strings / arrays (with the primitive string coercions), [==] on
   primitives, and [std.trace(msg, e)].

   Evaluation order is that of rsjsonnet's evaluator
   (rsjsonnet-lang/src/program/eval/expr.rs, eval/mod.rs):
     binary operators: lhs then rhs;  index: array then index;
     call: callee, then arity check, arguments become delayed;
     std.trace(m, e): e FIRST, then m, then the message is emitted
       (call.rs BuiltInFunc::Trace pushes DoThunk(arg0) then DoThunk(arg1));
     manifestation: array items in order, visible object fields by name.
   The result of an evaluation is the list of std.trace messages in evaluation
   order together with a value, an error, a panic site or OutOfFuel.

   The evaluator is call-by-name: a delayed expression is a closure
   (environment, expression) and is re-evaluated at every use.  Memoisation
   (call-by-need) is Model/Memo.v.  No proofs here. *)
From RJ Require Import Base.Outcome.
From Coq Require Import Lia.
Local Open Scope Z_scope.

Definition name := list N.      (* identifier / field name: code points *)
Definition str := list N.

Fixpoint name_eqb (a b : name) : bool :=
  match a, b with
  | [], [] => true
  | x :: a', y :: b' => N.eqb x y && name_eqb a' b'
  | _, _ => false
  end.

(* strict lexicographic order on code points (= Rust's str order on UTF-8) *)
Fixpoint name_ltb (a b : name) : bool :=
  match a, b with
  | [], [] => false
  | [], _ :: _ => true
  | _ :: _, [] => false
  | x :: a', y :: b' => if N.ltb x y then true else if N.eqb x y then name_ltb a' b' else false
  end.

Inductive expr : Type :=
| ENull
| EBool (b : bool)
| ENum (z : Z)
| EStr (s : str)
| EVar (x : name)
| ELocal (bs : list (name * expr)) (body : expr)
| EFunc (ps : list (name * option expr)) (body : expr)
| ECall (f : expr) (args : list expr)
| EArr (es : list expr)
| EIndex (a i : expr)
| EObj (fs : list (name * (bool * expr)))     (* (field, (hidden?, body)) *)
| EField (o : expr) (f : name)
| ESelf
| EIf (c t e : expr)
| EError (m : expr)
| EAdd (a b : expr)
| EEq (a b : expr)
| ETrace (m e : expr).

Definition field := (name * (bool * expr))%type.
Definition param := (name * option expr)%type.

(* environments: a plain inductive (no cyclic data: a recursive frame keeps
   the binds as syntax and rebuilds the closure at lookup) *)
Inductive env : Type :=
| RNil
| RRec (bs : list (name * expr)) (r : env)              (* local / default parameters *)
| RArg (x : name) (tr : env) (te : expr) (r : env)      (* one bound argument *)
| RObj (fs : list field) (r : env).                     (* self = object (fs, r) *)

Definition thunk := (env * expr)%type.

Inductive value : Type :=
| VNull
| VBool (b : bool)
| VNum (z : Z)
| VStr (s : str)
| VArr (ts : list thunk)
| VObj (fs : list field) (r : env)
| VFun (ps : list param) (body : expr) (r : env).

(* EvalErrorKind variants reachable in the fragment (names as in error.rs) *)
Inductive errk : Type :=
| ExplicitError (msg : str)
| UnknownObjectField (f : name)
| FieldOfNonObject
| InvalidIndexedType
| ArrayIndexIsNotNumber
| NumericIndexIsNotValid
| NumericIndexOutOfRange
| CondIsNotBool
| InvalidBinaryOpTypes
| CalleeIsNotFunction
| TooManyCallArgs
| CallParamNotBound (p : name)
| ManifestFunction
| CompareFunctions
| InvalidStdFuncArgType
| NumberOverflow                 (* a literal that is not a finite double (check_number_value) *)
| OutOfFragment (what : string).   (* the model does not cover this case *)

Definition res (A : Type) : Type := (list str * outcome A errk)%type.

Definition ret {A} (a : A) : res A := ([], Ok a).
Definition fail {A} (e : errk) : res A := ([], Err e).
Definition rbind {A B} (m : res A) (k : A -> res B) : res B :=
  match m with
  | (t1, Ok a) => let '(t2, o) := k a in (t1 ++ t2, o)
  | (t1, Err e) => (t1, Err e)
  | (t1, Panic s) => (t1, Panic s)
  | (t1, OutOfFuel) => (t1, OutOfFuel)
  end.
Definition emit (m : str) : res unit := ([m], Ok tt).

Declare Scope res_scope.
Delimit Scope res_scope with res.
Notation "'rdo' x <- e ; k" := (rbind e (fun x => k))
  (at level 200, x pattern, e at level 100, k at level 200, right associativity) : res_scope.
Local Open Scope res_scope.

Fixpoint mapM {A B} (f : A -> res B) (l : list A) : res (list B) :=
  match l with
  | [] => ret []
  | a :: l' => rdo b <- f a; rdo bs <- mapM f l'; ret (b :: bs)
  end.

(* ------------------------------------------------------------------ lookups *)

Fixpoint assoc {A} (x : name) (l : list (name * A)) : option A :=
  match l with
  | [] => None
  | (y, a) :: l' => if name_eqb x y then Some a else assoc x l'
  end.

Fixpoint lookup (x : name) (r : env) : option thunk :=
  match r with
  | RNil => None
  | RRec bs r' =>
      match assoc x bs with
      | Some e => Some (RRec bs r', e)
      | None => lookup x r'
      end
  | RArg y tr te r' => if name_eqb x y then Some (tr, te) else lookup x r'
  | RObj _ r' => lookup x r'
  end.

Fixpoint self_of (r : env) : option (list field * env) :=
  match r with
  | RNil => None
  | RRec _ r' => self_of r'
  | RArg _ _ _ r' => self_of r'
  | RObj fs r' => Some (fs, r')
  end.

(* ------------------------------------------------------------------ objects *)

Definition find_field (f : name) (fs : list field) : option expr :=
  match assoc f fs with Some (_, e) => Some e | None => None end.

Fixpoint insert_field (x : name * expr) (l : list (name * expr)) : list (name * expr) :=
  match l with
  | [] => [x]
  | y :: l' => if name_ltb (fst y) (fst x) then y :: insert_field x l' else x :: l
  end.

(* visible fields, sorted by name (data.rs get_fields_order: a BTreeMap on the names) *)
Definition visible_sorted (fs : list field) : list (name * expr) :=
  fold_right insert_field []
    (map (fun f : field => (fst f, snd (snd f))) (filter (fun f : field => negb (fst (snd f))) fs)).

(* ------------------------------------------------------------------ primitives *)

Definition num_limit : Z := 9007199254740992.   (* 2^53: integers are exact doubles up to here *)
Definition in_range (z : Z) : bool := (Z.leb (- num_limit) z) && (Z.leb z num_limit).

(* an integer literal of magnitude >= 2^1024 certainly rounds to an infinite double: the
   evaluator reports NumberOverflow when the literal is evaluated (expr.rs Expr::Number ->
   check_number_value).  Between 2^53 and 2^1024 the model does not commit. *)
Definition overflows (z : Z) : bool := Z.leb (2 ^ 1024) (Z.abs z).

Definition digit_cp (d : N) : N := (48 + d)%N.

Fixpoint uint_cps (u : Decimal.uint) : list N :=
  match u with
  | Decimal.Nil => []
  | Decimal.D0 u => 48%N :: uint_cps u
  | Decimal.D1 u => 49%N :: uint_cps u
  | Decimal.D2 u => 50%N :: uint_cps u
  | Decimal.D3 u => 51%N :: uint_cps u
  | Decimal.D4 u => 52%N :: uint_cps u
  | Decimal.D5 u => 53%N :: uint_cps u
  | Decimal.D6 u => 54%N :: uint_cps u
  | Decimal.D7 u => 55%N :: uint_cps u
  | Decimal.D8 u => 56%N :: uint_cps u
  | Decimal.D9 u => 57%N :: uint_cps u
  end.

Definition z_cps (z : Z) : str :=
  match z with
  | Z0 => [48%N]
  | Zpos p => uint_cps (Pos.to_uint p)
  | Zneg p => 45%N :: uint_cps (Pos.to_uint p)
  end.

Definition cps_null : str := [110; 117; 108; 108]%N.
Definition cps_true : str := [116; 114; 117; 101]%N.
Definition cps_false : str := [102; 97; 108; 115; 101]%N.

(* std.toString on a primitive; None = array / object / function (not covered) *)
Definition tostr (v : value) : option str :=
  match v with
  | VNull => Some cps_null
  | VBool true => Some cps_true
  | VBool false => Some cps_false
  | VNum z => Some (z_cps z)
  | VStr s => Some s
  | _ => None
  end.

Definition add_values (a b : value) : res value :=
  match a, b with
  | VNum x, VNum y =>
      if in_range (x + y) then ret (VNum (x + y)) else fail (OutOfFragment "number beyond 2^53")
  | VStr x, VStr y => ret (VStr (x ++ y))
  | VArr x, VArr y => ret (VArr (x ++ y))
  | VObj _ _, VObj _ _ => fail (OutOfFragment "object + object")
  | VStr x, _ =>
      match tostr b with
      | Some y => ret (VStr (x ++ y))
      | None => fail (OutOfFragment "string + composite")
      end
  | _, VStr y =>
      match tostr a with
      | Some x => ret (VStr (x ++ y))
      | None => fail (OutOfFragment "composite + string")
      end
  | _, _ => fail InvalidBinaryOpTypes
  end.

Definition eq_values (a b : value) : res value :=
  match a, b with
  | VNull, VNull => ret (VBool true)
  | VBool x, VBool y => ret (VBool (Bool.eqb x y))
  | VNum x, VNum y => ret (VBool (Z.eqb x y))
  | VStr x, VStr y => ret (VBool (name_eqb x y))
  | VArr x, VArr y =>
      if negb (Nat.eqb (length x) (length y)) then ret (VBool false)
      else match x with
           | [] => ret (VBool true)
           | _ :: _ => fail (OutOfFragment "array == array")
           end
  | VObj _ _, VObj _ _ => fail (OutOfFragment "object == object")
  | VFun _ _ _, VFun _ _ _ => fail CompareFunctions
  | _, _ => ret (VBool false)
  end.

(* ------------------------------------------------------------------ calls *)

(* call.rs check_call_args_generic, positional arguments only:
   too many -> TooManyCallArgs; the first unbound parameter without a default
   -> CallParamNotBound; defaults are evaluated in the environment that holds
   ALL parameters (the [RRec] frame on top). *)
Fixpoint bind_pos (ps : list param) (args : list expr) (cr : env) (fr : env)
  : env * list param :=
  match ps, args with
  | (x, _) :: ps', a :: args' => bind_pos ps' args' cr (RArg x cr a fr)
  | _, _ => (fr, ps)
  end.

Fixpoint defaults_of (ps : list param) : errk + list (name * expr) :=
  match ps with
  | [] => inr []
  | (x, None) :: _ => inl (CallParamNotBound x)
  | (x, Some d) :: ps' =>
      match defaults_of ps' with
      | inl e => inl e
      | inr l => inr ((x, d) :: l)
      end
  end.

Definition bind_args (ps : list param) (args : list expr) (cr fr : env) : errk + env :=
  if Nat.ltb (length ps) (length args) then inl TooManyCallArgs
  else
    let '(r1, rest) := bind_pos ps args cr fr in
    match defaults_of rest with
    | inl e => inl e
    | inr ds => inr (RRec ds r1)
    end.

(* ------------------------------------------------------------------ evaluation *)

Definition index_array (ts : list thunk) (vi : value) : errk + thunk :=
  match vi with
  | VNum z =>
      if Z.ltb z 0 then inl NumericIndexIsNotValid
      else if Z.leb (Z.of_nat (length ts)) z then inl NumericIndexOutOfRange
      else match nth_error ts (Z.to_nat z) with
           | Some t => inr t
           | None => inl NumericIndexOutOfRange
           end
  | _ => inl ArrayIndexIsNotNumber
  end.

Fixpoint eval (n : nat) (r : env) (e : expr) {struct n} : res value :=
  match n with
  | O => ([], OutOfFuel)
  | S n =>
    match e with
    | ENull => ret VNull
    | EBool b => ret (VBool b)
    | ENum z =>
        if in_range z then ret (VNum z)
        else if overflows z then fail NumberOverflow
        else fail (OutOfFragment "number beyond 2^53")
    | EStr s => ret (VStr s)
    | EVar x =>
        match lookup x r with
        | Some (tr, te) => eval n tr te
        | None => ([], Panic "LazyCore:eval:unbound variable (excluded by the analyzer)")
        end
    | ELocal bs body => eval n (RRec bs r) body
    | EFunc ps body => ret (VFun ps body r)
    | ECall f args =>
        rdo vf <- eval n r f;
        match vf with
        | VFun ps body fr =>
            match bind_args ps args r fr with
            | inl err => fail err
            | inr cr => eval n cr body
            end
        | _ => fail CalleeIsNotFunction
        end
    | EArr es => ret (VArr (map (fun x => (r, x)) es))
    | EIndex a i =>
        rdo va <- eval n r a;
        rdo vi <- eval n r i;
        match va with
        | VArr ts =>
            match index_array ts vi with
            | inl err => fail err
            | inr (tr, te) => eval n tr te
            end
        | VStr _ => fail (OutOfFragment "string index")
        | VObj _ _ => fail (OutOfFragment "object index")
        | _ => fail InvalidIndexedType
        end
    | EObj fs => ret (VObj fs r)
    | EField o f =>
        rdo vo <- eval n r o;
        match vo with
        | VObj fs orr =>
            match find_field f fs with
            | Some fe => eval n (RObj fs orr) fe
            | None => fail (UnknownObjectField f)
            end
        | _ => fail FieldOfNonObject
        end
    | ESelf =>
        match self_of r with
        | Some (fs, orr) => ret (VObj fs orr)
        | None => ([], Panic "LazyCore:eval:self outside object (excluded by the analyzer)")
        end
    | EIf c t f =>
        rdo vc <- eval n r c;
        match vc with
        | VBool true => eval n r t
        | VBool false => eval n r f
        | _ => fail CondIsNotBool
        end
    | EError m =>
        rdo vm <- eval n r m;
        match tostr vm with
        | Some s => fail (ExplicitError s)
        | None => fail (OutOfFragment "error of a composite")
        end
    | EAdd a b =>
        rdo va <- eval n r a;
        rdo vb <- eval n r b;
        add_values va vb
    | EEq a b =>
        rdo va <- eval n r a;
        rdo vb <- eval n r b;
        eq_values va vb
    | ETrace m x =>
        rdo vx <- eval n r x;
        rdo vm <- eval n r m;
        match vm with
        | VStr s => rdo _ <- emit s; ret vx
        | _ => fail InvalidStdFuncArgType
        end
    end
  end.

(* ------------------------------------------------------------------ manifestation *)

Inductive json : Type :=
| JNull
| JBool (b : bool)
| JNum (z : Z)
| JStr (s : str)
| JArr (l : list json)
| JObj (l : list (name * json))
| JFun.      (* a function inside the forced value: reported by [finish] *)

(* The library entry points used by the harness (and the CLI) are
   eval_value = evaluate + State::DeepValue (force every array item in order and
   every visible field in name order; a function is NOT an error here), followed
   by manifest_json on the fully forced value (no evaluation left; the first
   function met in the same order is ManifestFunction).  [manifest] is the
   forcing pass, [finish] the pure second pass.
   [fe]: fuel of each forced closure; [n]: nesting depth of the value *)
Fixpoint manifest (fe : nat) (n : nat) (v : value) {struct n} : res json :=
  match n with
  | O => ([], OutOfFuel)
  | S n =>
    match v with
    | VNull => ret JNull
    | VBool b => ret (JBool b)
    | VNum z => ret (JNum z)
    | VStr s => ret (JStr s)
    | VFun _ _ _ => ret JFun
    | VArr ts =>
        rdo js <- mapM (fun t : thunk => rdo x <- eval fe (fst t) (snd t); manifest fe n x) ts;
        ret (JArr js)
    | VObj fs orr =>
        rdo js <- mapM (fun p : name * expr =>
                          rdo x <- eval fe (RObj fs orr) (snd p);
                          rdo j <- manifest fe n x;
                          ret (fst p, j))
                       (visible_sorted fs);
        ret (JObj js)
    end
  end.

Fixpoint has_fun (j : json) : bool :=
  match j with
  | JFun => true
  | JArr l => existsb has_fun l
  | JObj l => existsb (fun p => has_fun (snd p)) l
  | _ => false
  end.

Definition finish (j : json) : res json :=
  if has_fun j then fail ManifestFunction else ret j.

(* a whole program: evaluate (fuel fe), force deeply (closure fuel fc, nesting fm), manifest *)
Definition run_in (fe fc fm : nat) (r : env) (e : expr) : res json :=
  rdo v <- eval fe r e; rdo j <- manifest fc fm v; finish j.

Definition run (fe fm : nat) (e : expr) : res json := run_in fe fe fm RNil e.

(* ------------------------------------------------------------------ syntactic predicates
   used by the statements of the rewrite laws *)

Definition names {A} (l : list (name * A)) : list name := map fst l.

Fixpoint mem (x : name) (l : list name) : bool :=
  match l with
  | [] => false
  | y :: l' => name_eqb x y || mem x l'
  end.

(* x occurs free in e *)
Fixpoint fvb (x : name) (e : expr) {struct e} : bool :=
  match e with
  | ENull | EBool _ | ENum _ | EStr _ | ESelf => false
  | EVar y => name_eqb x y
  | ELocal bs body =>
      if mem x (map fst bs) then false
      else existsb (fun p => fvb x (snd p)) bs || fvb x body
  | EFunc ps body =>
      if mem x (map fst ps) then false
      else existsb (fun p => match snd p with Some d => fvb x d | None => false end) ps || fvb x body
  | ECall f args => fvb x f || existsb (fvb x) args
  | EArr es => existsb (fvb x) es
  | EIndex a i => fvb x a || fvb x i
  | EObj fs => existsb (fun f => fvb x (snd (snd f))) fs
  | EField o _ => fvb x o
  | EIf c t f => fvb x c || fvb x t || fvb x f
  | EError m => fvb x m
  | EAdd a b => fvb x a || fvb x b
  | EEq a b => fvb x a || fvb x b
  | ETrace m y => fvb x m || fvb x y
  end.

(* [self] occurs free in e (an object literal rebinds it) *)
Fixpoint selfb (e : expr) {struct e} : bool :=
  match e with
  | ENull | EBool _ | ENum _ | EStr _ | EVar _ => false
  | ESelf => true
  | ELocal bs body => existsb (fun p => selfb (snd p)) bs || selfb body
  | EFunc ps body =>
      existsb (fun p => match snd p with Some d => selfb d | None => false end) ps || selfb body
  | ECall f args => selfb f || existsb selfb args
  | EArr es => existsb selfb es
  | EIndex a i => selfb a || selfb i
  | EObj _ => false
  | EField o _ => selfb o
  | EIf c t f => selfb c || selfb t || selfb f
  | EError m => selfb m
  | EAdd a b => selfb a || selfb b
  | EEq a b => selfb a || selfb b
  | ETrace m y => selfb m || selfb y
  end.

(* the field name d is accessed nowhere in e (under every binder) *)
Fixpoint nofld (d : name) (e : expr) {struct e} : bool :=
  match e with
  | ENull | EBool _ | ENum _ | EStr _ | EVar _ | ESelf => true
  | ELocal bs body => forallb (fun p => nofld d (snd p)) bs && nofld d body
  | EFunc ps body =>
      forallb (fun p => match snd p with Some x => nofld d x | None => true end) ps && nofld d body
  | ECall f args => nofld d f && forallb (nofld d) args
  | EArr es => forallb (nofld d) es
  | EIndex a i => nofld d a && nofld d i
  | EObj fs => forallb (fun f => nofld d (snd (snd f))) fs
  | EField o f => negb (name_eqb f d) && nofld d o
  | EIf c t f => nofld d c && nofld d t && nofld d f
  | EError m => nofld d m
  | EAdd a b => nofld d a && nofld d b
  | EEq a b => nofld d a && nofld d b
  | ETrace m y => nofld d m && nofld d y
  end.

(* ------------------------------------------------------------------ one-hole contexts
   (used only to STATE the general laziness-monotonicity goal in Props/C04.v) *)

Inductive ctx : Type :=
| CHole
| CLocalBind (bs1 : list (name * expr)) (x : name) (c : ctx) (bs2 : list (name * expr)) (body : expr)
| CLocalBody (bs : list (name * expr)) (c : ctx)
| CArrItem (es1 : list expr) (c : ctx) (es2 : list expr)
| CObjField (fs1 : list field) (f : name) (h : bool) (c : ctx) (fs2 : list field)
| CCallArg (fn : expr) (as1 : list expr) (c : ctx) (as2 : list expr)
| CCallFun (c : ctx) (args : list expr)
| CFuncBody (ps : list param) (c : ctx)
| CIndexL (c : ctx) (i : expr) | CIndexR (a : expr) (c : ctx)
| CFieldOf (c : ctx) (f : name)
| CIfC (c : ctx) (t e : expr) | CIfT (b : expr) (c : ctx) (e : expr) | CIfE (b t : expr) (c : ctx)
| CAddL (c : ctx) (b : expr) | CAddR (a : expr) (c : ctx)
| CEqL (c : ctx) (b : expr) | CEqR (a : expr) (c : ctx)
| CErr (c : ctx) | CTraceM (c : ctx) (e : expr) | CTraceE (m : expr) (c : ctx).

Fixpoint plug (c : ctx) (e : expr) : expr :=
  match c with
  | CHole => e
  | CLocalBind bs1 x c' bs2 body => ELocal (bs1 ++ (x, plug c' e) :: bs2) body
  | CLocalBody bs c' => ELocal bs (plug c' e)
  | CArrItem es1 c' es2 => EArr (es1 ++ plug c' e :: es2)
  | CObjField fs1 f h c' fs2 => EObj (fs1 ++ (f, (h, plug c' e)) :: fs2)
  | CCallArg fn as1 c' as2 => ECall fn (as1 ++ plug c' e :: as2)
  | CCallFun c' args => ECall (plug c' e) args
  | CFuncBody ps c' => EFunc ps (plug c' e)
  | CIndexL c' i => EIndex (plug c' e) i
  | CIndexR a c' => EIndex a (plug c' e)
  | CFieldOf c' f => EField (plug c' e) f
  | CIfC c' t f => EIf (plug c' e) t f
  | CIfT b c' f => EIf b (plug c' e) f
  | CIfE b t c' => EIf b t (plug c' e)
  | CAddL c' b => EAdd (plug c' e) b
  | CAddR a c' => EAdd a (plug c' e)
  | CEqL c' b => EEq (plug c' e) b
  | CEqR a c' => EEq a (plug c' e)
  | CErr c' => EError (plug c' e)
  | CTraceM c' x => ETrace (plug c' e) x
  | CTraceE m c' => ETrace m (plug c' e)
  end.

