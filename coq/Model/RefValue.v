(* Model/RefValue.v — C02 reference semantics, part 2: values, environments,
   object layer lists, number/string helpers, JSON trees.  No proofs here. *)
From RJ Require Import Base.Outcome Base.F64 Model.Token Model.Ast Model.RefCore.
From Coq Require Import Floats.SpecFloat.
Local Open Scope N_scope.

(* ---- values ----
   call-by-name: a thunk is an expression closed by its environment, an already
   computed value, or a pending call (arrays built by std.map / std.makeArray).
   Environments are lists of frames, innermost first.  A frame never contains
   itself: recursive bindings (local, object locals, default arguments) are
   kept as expressions and closed at lookup time over the suffix of the
   environment that starts at their own frame. *)
Inductive value :=
| VNull
| VBool (b : bool)
| VNum (f : f64)
| VStr (s : str)
| VArr (items : list thunk)
| VObj (layers : list layer) (checked : bool)   (* most derived layer first; [checked]: asserts already verified *)
| VFun (params : list (str * option cexpr)) (body : cexpr) (env : list frame)
| VBuiltin (b : builtin)
with thunk :=
| Th (e : cexpr) (env : list frame)
| Tv (v : value)
| TCall (f : value) (args : list thunk)
with frame :=
| FVars (bound : list (str * thunk)) (recs : list (str * cexpr))
| FObj (layers : list layer) (idx : N) (checked : bool)      (* self = layers; super starts at idx+1 *)
with layer :=
| MkLayer (locals : list (str * cexpr)) (asserts : list (cexpr * option cexpr))
          (fields : list (str * field)) (env : list frame) (is_std : bool)
with field :=
| MkField (vis : visibility) (plus : bool) (body : cexpr) (fenv : option (list frame)).

Definition env := list frame.

Definition l_locals (l : layer) := match l with MkLayer a _ _ _ _ => a end.
Definition l_asserts (l : layer) := match l with MkLayer _ a _ _ _ => a end.
Definition l_fields (l : layer) := match l with MkLayer _ _ a _ _ => a end.
Definition l_env (l : layer) := match l with MkLayer _ _ _ a _ => a end.
Definition l_std (l : layer) := match l with MkLayer _ _ _ _ a => a end.
Definition f_vis (f : field) := match f with MkField a _ _ _ => a end.
Definition f_plus (f : field) := match f with MkField _ a _ _ => a end.
Definition f_body (f : field) := match f with MkField _ _ a _ => a end.
Definition f_fenv (f : field) := match f with MkField _ _ _ a => a end.

(* ---- errors ---- *)
Inductive err :=
| EStackOverflow
| EExplicit (msg : str)                 (* error e *)
| EAssertFailed (msg : option str)      (* failed assert, with its message *)
| EKind (variant : string)              (* any other EvalErrorKind, by variant name *)
| EStatic (variant : string)            (* rejected statically by the implementation's analyzer *)
| EUnsupported (what : str).            (* outside the modelled fragment: the case is skipped and counted *)

(* ---- JSON trees (result of manifestation) ---- *)
Inductive json :=
| JNull | JBool (b : bool) | JNum (f : f64) | JStr (s : str)
| JArr (items : list json) | JObj (fields : list (str * json)) | JFunc.

(* ---- association lists on code-point strings ---- *)
Fixpoint assoc {A} (x : str) (l : list (str * A)) : option A :=
  match l with
  | [] => None
  | (y, a) :: r => if str_eqb x y then Some a else assoc x r
  end.

Definition mem_str (x : str) (l : list str) : bool := existsb (str_eqb x) l.

(* lexicographic order on code points (= byte order of UTF-8) *)
Fixpoint str_cmp (a b : str) : comparison :=
  match a, b with
  | [], [] => Eq
  | [], _ => Lt
  | _, [] => Gt
  | x :: a', y :: b' => match x ?= y with Eq => str_cmp a' b' | c => c end
  end.

Definition str_ltb (a b : str) : bool := match str_cmp a b with Lt => true | _ => false end.

Fixpoint insert_sorted (x : str) (l : list str) : list str :=
  match l with
  | [] => [x]
  | y :: r => match str_cmp x y with
              | Lt => x :: l
              | Eq => l
              | Gt => y :: insert_sorted x r
              end
  end.

Definition sort_names (l : list str) : list str := fold_right insert_sorted [] l.

(* ---- variable lookup ---- *)
Fixpoint lookup_var (x : str) (e : env) : option thunk :=
  match e with
  | [] => None
  | FVars bound recs :: r =>
      match assoc x bound with
      | Some t => Some t
      | None => match assoc x recs with
                | Some ex => Some (Th ex e)
                | None => lookup_var x r
                end
      end
  | FObj _ _ _ :: r => lookup_var x r
  end.

Fixpoint lookup_obj (e : env) : option (list layer * N * bool) :=
  match e with
  | [] => None
  | FObj ls i c :: _ => Some (ls, i, c)
  | _ :: r => lookup_obj r
  end.

(* ---- objects as layer lists ---- *)
Fixpoint nthN {A} (l : list A) (i : N) : option A :=
  match l with
  | [] => None
  | x :: r => if i =? 0 then Some x else nthN r (i - 1)
  end.

Definition lenN {A} (l : list A) : N := N.of_nat (length l).

Fixpoint dropN {A} (l : list A) (i : N) : list A :=
  match l with
  | [] => []
  | _ :: r => if i =? 0 then l else dropN r (i - 1)
  end.

(* first layer at index >= from that defines [name] *)
Fixpoint find_field_in (ls : list layer) (i : N) (name : str) : option (N * field) :=
  match ls with
  | [] => None
  | l :: r => match assoc name (l_fields l) with
              | Some f => Some (i, f)
              | None => find_field_in r (i + 1) name
              end
  end.

Definition find_field (ls : list layer) (from : N) (name : str) : option (N * field) :=
  find_field_in (dropN ls from) from name.

Definition has_field (ls : list layer) (from : N) (name : str) : bool :=
  match find_field ls from name with Some _ => true | None => false end.

Definition has_std (ls : list layer) : bool := existsb l_std ls.

(* visibility of a field of the whole object: the most derived definition decides
   unless it is the default `:`, which inherits from the next definition below *)
Fixpoint field_vis_in (ls : list layer) (name : str) (found : bool) : option visibility :=
  match ls with
  | [] => if found then Some VisDefault else None
  | l :: r => match assoc name (l_fields l) with
              | Some f => match f_vis f with
                          | VisDefault => field_vis_in r name true
                          | v => Some v
                          end
              | None => field_vis_in r name found
              end
  end.

Definition field_vis (ls : list layer) (name : str) : option visibility := field_vis_in ls name false.

Definition is_visible (ls : list layer) (name : str) : bool :=
  match field_vis ls name with
  | Some VisHidden => false
  | Some _ => true
  | None => false
  end.

Definition all_names (ls : list layer) : list str :=
  sort_names (flat_map (fun l => map fst (l_fields l)) ls).

Definition visible_names (ls : list layer) : list str :=
  filter (is_visible ls) (all_names ls).

(* environment in which the body of a field (or an assert, or an object local)
   of layer [i] is evaluated *)
Definition layer_env (ls : list layer) (i : N) (l : layer) (base : env) : env :=
  FVars [] (l_locals l) :: FObj ls i true :: base.

Definition field_env (ls : list layer) (i : N) (l : layer) (f : field) : env :=
  layer_env ls i l (match f_fenv f with Some e => e | None => l_env l end).

(* ---- numbers ---- *)
Definition check_num (f : f64) : outcome value err :=
  match f with
  | S754_nan => Err (EKind "NumberNan")
  | S754_infinity _ => Err (EKind "NumberOverflow")
  | _ => Ok (VNum f)
  end.

(* C fmod on finite operands, y <> 0: exact, sign of x *)
Definition f_rem (x y : f64) : f64 :=
  match x, y with
  | S754_finite sx mx ex, S754_finite _ my ey =>
      (let e := Z.min ex ey in
       let X := Z.pos mx * 2 ^ (ex - e) in
       let Y := Z.pos my * 2 ^ (ey - e) in
       let r := X mod Y in
       if r =? 0 then S754_zero sx
       else f_of_Z_exp (if sx then - r else r) e)%Z
  | S754_finite _ _ _, S754_infinity _ => x
  | S754_zero _, S754_finite _ _ _ => x
  | S754_zero _, S754_infinity _ => x
  | _, _ => S754_nan
  end.

Definition safe_max : Z := (2 ^ 53 - 1)%Z.

(* safe_f64_to_i64: |v| <= 2^53-1, truncated toward zero *)
Definition safe_int (f : f64) : option Z :=
  match f_trunc_Z f with
  | Some z =>
      (* the comparison is on the double itself: v < -max or v > max *)
      if f_ltb f (f_of_Z (- safe_max)) || f_ltb (f_of_Z safe_max) f then None else Some z
  | None => None
  end.

Definition wrap64 (z : Z) : Z := ((z + 2 ^ 63) mod 2 ^ 64 - 2 ^ 63)%Z.

(* `x as usize` (saturating) followed by `as f64 == x` (try_to_usize_exact): integral and
   0 <= x <= 2^64; 2^64 itself passes (usize::MAX as f64 = 2^64) as index usize::MAX *)
Definition to_index (f : f64) : option N :=
  if f_is_integer f then
    match f_trunc_Z f with
    | Some z => if (z <? 0)%Z then None
                else if (2 ^ 64 <? z)%Z then None
                else if (z =? 2 ^ 64)%Z then Some (2 ^ 64 - 1)
                else Some (Z.to_N z)
    | None => None
    end
  else None.

(* try_to_i32_exact *)
Definition to_i32 (f : f64) : option Z :=
  if f_is_integer f then
    match f_trunc_Z f with
    | Some z => if ((- 2 ^ 31 <=? z) && (z <? 2 ^ 31))%Z then Some z else None
    | None => None
    end
  else None.

Definition is_int_valued (f : f64) : bool := f_is_integer f.

(* ---- number -> text, only where no shortest-digits search is needed:
        integral doubles below 2^53 (Rust's Display prints exactly these digits) ---- *)
Fixpoint pos_digits (fuel : nat) (z : Z) (acc : str) : str :=
  match fuel with
  | O => acc
  | S f => if (z <? 10)%Z then (Z.to_N z + 48) :: acc
           else pos_digits f (z / 10)%Z ((Z.to_N (z mod 10) + 48) :: acc)
  end.

Definition z_to_str (z : Z) : str :=
  if (z <? 0)%Z then 45 :: pos_digits 400 (- z)%Z [] else pos_digits 400 z [].

Definition num_to_str (f : f64) : option str :=
  match f with
  | S754_zero false => Some [48]
  | S754_zero true => Some [45; 48]
  | S754_finite _ _ _ =>
      if f_is_integer f then
        match f_trunc_Z f with
        | Some z => if (Z.abs z <? 2 ^ 53)%Z then Some (z_to_str z) else None
        | None => None
        end
      else None
  | _ => None
  end.

(* ---- JSON text in the `toString` format of manifest.rs (default_to_string) ---- *)
Definition hex_digit (n : N) : N := if n <? 10 then n + 48 else n + 87.

Definition esc_char (c : N) : option str :=
  if c =? 8 then Some [92; 98]
  else if c =? 9 then Some [92; 116]
  else if c =? 10 then Some [92; 110]
  else if c =? 12 then Some [92; 102]
  else if c =? 13 then Some [92; 114]
  else if c =? 34 then Some [92; 34]
  else if c =? 92 then Some [92; 92]
  else if (c <=? 25) || ((127 <=? c) && (c <=? 159)) then
    Some [92; 117; 48; 48; hex_digit (c / 16); hex_digit (c mod 16)]
  else if c <? 32 then None    (* 0x1a..0x1f: implementation behaviour under repair elsewhere (C05); not modelled *)
  else Some [c].

Fixpoint esc_body (s : str) : option str :=
  match s with
  | [] => Some []
  | c :: r => match esc_char c, esc_body r with
              | Some a, Some b => Some (a ++ b)
              | _, _ => None
              end
  end.

Definition esc_string (s : str) : option str :=
  match esc_body s with Some b => Some (34 :: b ++ [34]) | None => None end.

Fixpoint join_strs (sep : str) (l : list str) : str :=
  match l with
  | [] => []
  | [x] => x
  | x :: r => x ++ sep ++ join_strs sep r
  end.

Fixpoint all_some {A} (l : list (option A)) : option (list A) :=
  match l with
  | [] => Some []
  | Some x :: r => match all_some r with Some r' => Some (x :: r') | None => None end
  | None :: _ => None
  end.

Fixpoint render (j : json) : option str :=
  match j with
  | JNull => Some [110; 117; 108; 108]
  | JBool true => Some [116; 114; 117; 101]
  | JBool false => Some [102; 97; 108; 115; 101]
  | JNum f => num_to_str f
  | JStr s => esc_string s
  | JArr [] => Some [91; 32; 93]
  | JArr items =>
      match all_some (map render items) with
      | Some l => Some (91 :: join_strs [44; 32] l ++ [93])
      | None => None
      end
  | JObj [] => Some [123; 32; 125]
  | JObj fields =>
      match all_some (map (fun kv => match esc_string (fst kv), render (snd kv) with
                                     | Some k, Some v => Some (k ++ [58; 32] ++ v)
                                     | _, _ => None
                                     end) fields) with
      | Some l => Some (123 :: join_strs [44; 32] l ++ [125])
      | None => None
      end
  | JFunc => None
  end.

Fixpoint has_func (j : json) : bool :=
  match j with
  | JFunc => true
  | JArr items => existsb has_func items
  | JObj fields => existsb (fun kv => has_func (snd kv)) fields
  | _ => false
  end.

(* ---- type names ---- *)
Definition s_of (s : string) : str :=
  (fix go (s : string) : str :=
     match s with
     | EmptyString => []
     | String a r => N.of_nat (Ascii.nat_of_ascii a) :: go r
     end) s.

Definition type_name (v : value) : str :=
  s_of match v with
       | VNull => "null" | VBool _ => "boolean" | VNum _ => "number" | VStr _ => "string"
       | VArr _ => "array" | VObj _ _ => "object" | VFun _ _ _ | VBuiltin _ => "function"
       end.

(* ---- the std object ---- *)
Definition builtin_table : list (string * builtin * list string) :=
  [ ("type", BiType, ["x"]); ("isArray", BiIsArray, ["v"]); ("isBoolean", BiIsBoolean, ["v"]);
    ("isFunction", BiIsFunction, ["v"]); ("isNumber", BiIsNumber, ["v"]); ("isObject", BiIsObject, ["v"]);
    ("isString", BiIsString, ["v"]); ("isNull", BiIsNull, ["v"]); ("length", BiLength, ["x"]);
    ("objectHasEx", BiObjectHasEx, ["obj"; "f"; "inc_hidden"]);
    ("objectFieldsEx", BiObjectFieldsEx, ["obj"; "inc_hidden"]);
    ("objectHas", BiObjectHas, ["o"; "f"]); ("objectHasAll", BiObjectHasAll, ["o"; "f"]);
    ("objectFields", BiObjectFields, ["o"]); ("objectFieldsAll", BiObjectFieldsAll, ["o"]);
    ("primitiveEquals", BiPrimitiveEquals, ["a"; "b"]); ("equals", BiEquals, ["a"; "b"]);
    ("__compare", BiCompare, ["v1"; "v2"]); ("makeArray", BiMakeArray, ["sz"; "func"]);
    ("map", BiMap, ["func"; "arr"]); ("filter", BiFilter, ["func"; "arr"]);
    ("foldl", BiFoldl, ["func"; "arr"; "init"]); ("foldr", BiFoldr, ["func"; "arr"; "init"]);
    ("range", BiRange, ["from"; "to"]); ("repeat", BiRepeat, ["what"; "count"]);
    ("slice", BiSlice, ["indexable"; "index"; "end"; "step"]); ("join", BiJoin, ["sep"; "arr"]);
    ("mod", BiMod, ["a"; "b"]); ("modulo", BiModulo, ["a"; "b"]); ("trace", BiTrace, ["str"; "rest"]);
    ("toString", BiToString, ["a"]); ("assertEqual", BiAssertEqual, ["a"; "b"]);
    ("all", BiAll, ["arr"]); ("any", BiAny, ["arr"]); ("sum", BiSum, ["sum"]); ("reverse", BiReverse, ["arr"]);
    ("stringChars", BiStringChars, ["str"]); ("char", BiChar, ["n"]); ("codepoint", BiCodepoint, ["str"]);
    ("flattenArrays", BiFlattenArrays, ["arrs"]); ("contains", BiContains, ["arr"; "elem"]);
    ("member", BiMember, ["arr"; "x"]); ("count", BiCount, ["arr"; "x"]); ("startsWith", BiStartsWith, ["a"; "b"]);
    ("endsWith", BiEndsWith, ["a"; "b"]); ("mapWithIndex", BiMapWithIndex, ["func"; "arr"]) ]%string.

Definition builtin_eqb (a b : builtin) : bool :=
  match a, b with
  | BiType, BiType | BiIsArray, BiIsArray | BiIsBoolean, BiIsBoolean | BiIsFunction, BiIsFunction
  | BiIsNumber, BiIsNumber | BiIsObject, BiIsObject | BiIsString, BiIsString | BiIsNull, BiIsNull
  | BiLength, BiLength | BiObjectHasEx, BiObjectHasEx | BiObjectFieldsEx, BiObjectFieldsEx
  | BiObjectHas, BiObjectHas | BiObjectHasAll, BiObjectHasAll | BiObjectFields, BiObjectFields
  | BiObjectFieldsAll, BiObjectFieldsAll | BiPrimitiveEquals, BiPrimitiveEquals | BiEquals, BiEquals
  | BiCompare, BiCompare | BiMakeArray, BiMakeArray | BiMap, BiMap | BiFilter, BiFilter
  | BiFoldl, BiFoldl | BiFoldr, BiFoldr | BiRange, BiRange | BiRepeat, BiRepeat | BiSlice, BiSlice
  | BiJoin, BiJoin | BiMod, BiMod | BiModulo, BiModulo | BiTrace, BiTrace | BiToString, BiToString
  | BiAssertEqual, BiAssertEqual | BiAll, BiAll | BiAny, BiAny | BiSum, BiSum | BiReverse, BiReverse
  | BiStringChars, BiStringChars | BiChar, BiChar | BiCodepoint, BiCodepoint | BiFlattenArrays, BiFlattenArrays
  | BiContains, BiContains | BiMember, BiMember | BiCount, BiCount | BiStartsWith, BiStartsWith
  | BiEndsWith, BiEndsWith | BiMapWithIndex, BiMapWithIndex => true
  | _, _ => false
  end.

Definition builtin_params (b : builtin) : list (str * option cexpr) :=
  match find (fun r => builtin_eqb (snd (fst r)) b) builtin_table with
  | Some r => map (fun p => (s_of p, None)) (snd r)
  | None => []
  end.

(* the part of std that the implementation itself writes in Jsonnet (std.libsonnet), as core
   expressions; `self.f` of the library is the builtin f itself (std cannot be overridden) *)
Definition bcall (b : builtin) (args : list cexpr) : cexpr := CCall (CBuiltin b) args [] false false.
Definition v_ (s : string) : cexpr := CVar (s_of s).
Definition p_ (s : string) : str * option cexpr := (s_of s, None).
Definition kv_comp (o : cexpr) (all : bool) : cexpr :=
  CArrComp (CObject [] [] [CFld (CFix (s_of "key")) false VisDefault (v_ "key");
                           CFld (CFix (s_of "value")) false VisDefault (CIndex o (v_ "key"))])
           [CSFor (s_of "key") (bcall (if all then BiObjectFieldsAll else BiObjectFields) [o])].
Definition val_comp (o : cexpr) (all : bool) : cexpr :=
  CArrComp (CIndex o (v_ "key")) [CSFor (s_of "key") (bcall (if all then BiObjectFieldsAll else BiObjectFields) [o])].
Definition std_defs : list (string * cexpr) :=
  [ ("xor", CFunc [p_ "x"; p_ "y"] (CUn ULogicNot (CBin BEq (v_ "x") (v_ "y"))));
    ("xnor", CFunc [p_ "x"; p_ "y"] (CBin BEq (v_ "x") (v_ "y")));
    ("isEmpty", CFunc [p_ "str"] (CBin BEq (bcall BiLength [v_ "str"]) (CNum f_zero)));
    ("lines", CFunc [p_ "arr"] (bcall BiJoin [CStr [10]; CBin BAdd (v_ "arr") (CArray [CStr []])]));
    ("get", CFunc [p_ "o"; p_ "f"; (s_of "default", Some CNull); (s_of "inc_hidden", Some (CBool true))]
              (CIte (bcall BiObjectHasEx [v_ "o"; v_ "f"; v_ "inc_hidden"]) (CIndex (v_ "o") (v_ "f")) (v_ "default")));
    ("objectValues", CFunc [p_ "o"] (val_comp (v_ "o") false));
    ("objectValuesAll", CFunc [p_ "o"] (val_comp (v_ "o") true));
    ("objectKeysValues", CFunc [p_ "o"] (kv_comp (v_ "o") false));
    ("objectKeysValuesAll", CFunc [p_ "o"] (kv_comp (v_ "o") true)) ]%string.

Definition std_layer : layer :=
  MkLayer [] [] (map (fun r => (s_of (fst (fst r)), MkField VisHidden false (CBuiltin (snd (fst r))) None)) builtin_table
                 ++ map (fun r => (s_of (fst r), MkField VisHidden false (snd r) None)) std_defs) [] true.

(* string helpers of the stage-2 builtins *)
Fixpoint is_prefix (p s : str) : bool :=
  match p, s with
  | [], _ => true
  | x :: p', y :: s' => (x =? y) && is_prefix p' s'
  | _ :: _, [] => false
  end.
Fixpoint is_infix (p s : str) : bool :=
  is_prefix p s || match s with [] => false | _ :: s' => is_infix p s' end.
Definition is_suffix (p s : str) : bool := is_prefix (rev p) (rev s).
Definition is_scalar (z : Z) : bool :=
  ((0 <=? z) && (z <? 55296) || (57344 <=? z) && (z <=? 1114111))%Z.

Definition std_value : value := VObj [std_layer] true.
Definition s_std : str := [115; 116; 100].
Definition init_env : env := [FVars [(s_std, Tv std_value)] []].

Definition fun_params (v : value) : option (list (str * option cexpr)) :=
  match v with
  | VFun ps _ _ => Some ps
  | VBuiltin b => Some (builtin_params b)
  | _ => None
  end.

(* ---- parameter binding (check_call_args_generic) ----
   result: the bound arguments in parameter order, and the defaults that fill
   the remaining parameters (closed later over the argument frame itself) *)
Fixpoint bind_positional (ps : list (str * option cexpr)) (pos : list thunk)
  : option (list (str * thunk) * list (str * option cexpr)) :=
  match pos, ps with
  | [], _ => Some ([], ps)
  | _ :: _, [] => None
  | t :: pr, (x, _) :: psr =>
      match bind_positional psr pr with
      | Some (b, rest) => Some ((x, t) :: b, rest)
      | None => None
      end
  end.

Fixpoint check_named (rest : list (str * option cexpr)) (bound_pos : list (str * thunk))
         (named : list (str * thunk)) (seen : list str) : option err :=
  match named with
  | [] => None
  | (x, _) :: r =>
      match assoc x rest with
      | None => match assoc x bound_pos with
                | Some _ => Some (EKind "RepeatedCallParam")
                | None => Some (EKind "UnknownCallParam")
                end
      | Some _ => if mem_str x seen then Some (EKind "RepeatedCallParam")
                  else check_named rest bound_pos r (x :: seen)
      end
  end.

Fixpoint fill_rest (rest : list (str * option cexpr)) (named : list (str * thunk))
  : outcome (list (str * thunk) * list (str * cexpr)) err :=
  match rest with
  | [] => Ok ([], [])
  | (x, d) :: r =>
      match fill_rest r named with
      | Ok (b, ds) =>
          match assoc x named, d with
          | Some t, _ => Ok ((x, t) :: b, ds)
          | None, Some de => Ok (b, (x, de) :: ds)
          | None, None => Err (EKind "CallParamNotBound")
          end
      | other => other
      end
  end.

(* the first unbound parameter without default is the one reported; since only the
   variant name is compared, the order among several missing ones does not matter *)
Definition bind_args (ps : list (str * option cexpr)) (pos : list thunk) (named : list (str * thunk))
  : outcome (list (str * thunk) * list (str * cexpr)) err :=
  match bind_positional ps pos with
  | None => Err (EKind "TooManyCallArgs")
  | Some (bpos, rest) =>
      match check_named rest bpos named [] with
      | Some e => Err e
      | None =>
          match fill_rest rest named with
          | Ok (b, ds) => Ok (bpos ++ b, ds)
          | other => other
          end
      end
  end.

(* thunks of all parameters in parameter order (for tailstrict forcing) *)
Definition arg_thunks (ps : list (str * option cexpr)) (fr : env) : list thunk :=
  flat_map (fun p => match lookup_var (fst p) fr with Some t => [t] | None => [] end) ps.

(* ---- slices ---- *)
Fixpoint take_step {A} (l : list A) (n : N) (step : N) (k : N) : list A :=
  (* first n elements of l, keeping every step-th (k counts down to the next kept one) *)
  match l with
  | [] => []
  | x :: r => if n =? 0 then []
              else if k =? 0 then x :: take_step r (n - 1) step (step - 1)
              else take_step r (n - 1) step (k - 1)
  end.

Definition slice_list {A} (l : list A) (start : N) (stop : option N) (step : N) : list A :=
  let len := lenN l in
  let start' := N.min start len in
  let n := match stop with Some e => N.min (e - start') (len - start') | None => len - start' end in
  take_step (dropN l start') n step 0.
