(* Model/Hash.v — executable specifications of MD5 (RFC 1321), SHA-1, SHA-256, SHA-512
   (FIPS 180-4) and SHA3-512 (FIPS 202) over [N] words and byte lists.  These are
   specifications written from the standards, NOT models of the external digest crates
   (md-5, sha1, sha2, sha3) that rsjsonnet calls: they are checked on the standards' test
   vectors by vm_compute (Proofs/Hash_proofs.v) and compared with the implementation
   through the correspondence check.  std.md5(s) etc. hash the UTF-8 encoding of the
   string and print the digest in lower-case hexadecimal. *)
From RJ Require Import Base.Outcome Model.Utf8Codec.
Local Open Scope N_scope.

(* ---- generated constants (fractional parts of roots of primes, sines, LFSR) ---- *)
Definition k256 : list N := [1116352408; 1899447441; 3049323471; 3921009573; 961987163; 1508970993; 2453635748; 2870763221; 3624381080; 310598401; 607225278; 1426881987; 1925078388; 2162078206; 2614888103; 3248222580; 3835390401; 4022224774; 264347078; 604807628; 770255983; 1249150122; 1555081692; 1996064986; 2554220882; 2821834349; 2952996808; 3210313671; 3336571891; 3584528711; 113926993; 338241895; 666307205; 773529912; 1294757372; 1396182291; 1695183700; 1986661051; 2177026350; 2456956037; 2730485921; 2820302411; 3259730800; 3345764771; 3516065817; 3600352804; 4094571909; 275423344; 430227734; 506948616; 659060556; 883997877; 958139571; 1322822218; 1537002063; 1747873779; 1955562222; 2024104815; 2227730452; 2361852424; 2428436474; 2756734187; 3204031479; 3329325298].
Definition h256 : list N := [1779033703; 3144134277; 1013904242; 2773480762; 1359893119; 2600822924; 528734635; 1541459225].
Definition k512 : list N := [4794697086780616226; 8158064640168781261; 13096744586834688815; 16840607885511220156; 4131703408338449720; 6480981068601479193; 10538285296894168987; 12329834152419229976; 15566598209576043074; 1334009975649890238; 2608012711638119052; 6128411473006802146; 8268148722764581231; 9286055187155687089; 11230858885718282805; 13951009754708518548; 16472876342353939154; 17275323862435702243; 1135362057144423861; 2597628984639134821; 3308224258029322869; 5365058923640841347; 6679025012923562964; 8573033837759648693; 10970295158949994411; 12119686244451234320; 12683024718118986047; 13788192230050041572; 14330467153632333762; 15395433587784984357; 489312712824947311; 1452737877330783856; 2861767655752347644; 3322285676063803686; 5560940570517711597; 5996557281743188959; 7280758554555802590; 8532644243296465576; 9350256976987008742; 10552545826968843579; 11727347734174303076; 12113106623233404929; 14000437183269869457; 14369950271660146224; 15101387698204529176; 15463397548674623760; 17586052441742319658; 1182934255886127544; 1847814050463011016; 2177327727835720531; 2830643537854262169; 3796741975233480872; 4115178125766777443; 5681478168544905931; 6601373596472566643; 7507060721942968483; 8399075790359081724; 8693463985226723168; 9568029438360202098; 10144078919501101548; 10430055236837252648; 11840083180663258601; 13761210420658862357; 14299343276471374635; 14566680578165727644; 15097957966210449927; 16922976911328602910; 17689382322260857208; 500013540394364858; 748580250866718886; 1242879168328830382; 1977374033974150939; 2944078676154940804; 3659926193048069267; 4368137639120453308; 4836135668995329356; 5532061633213252278; 6448918945643986474; 6902733635092675308; 7801388544844847127].
Definition h512 : list N := [7640891576956012808; 13503953896175478587; 4354685564936845355; 11912009170470909681; 5840696475078001361; 11170449401992604703; 2270897969802886507; 6620516959819538809].
Definition kmd5 : list N := [3614090360; 3905402710; 606105819; 3250441966; 4118548399; 1200080426; 2821735955; 4249261313; 1770035416; 2336552879; 4294925233; 2304563134; 1804603682; 4254626195; 2792965006; 1236535329; 4129170786; 3225465664; 643717713; 3921069994; 3593408605; 38016083; 3634488961; 3889429448; 568446438; 3275163606; 4107603335; 1163531501; 2850285829; 4243563512; 1735328473; 2368359562; 4294588738; 2272392833; 1839030562; 4259657740; 2763975236; 1272893353; 4139469664; 3200236656; 681279174; 3936430074; 3572445317; 76029189; 3654602809; 3873151461; 530742520; 3299628645; 4096336452; 1126891415; 2878612391; 4237533241; 1700485571; 2399980690; 4293915773; 2240044497; 1873313359; 4264355552; 2734768916; 1309151649; 4149444226; 3174756917; 718787259; 3951481745].
Definition smd5 : list N := [7; 12; 17; 22; 7; 12; 17; 22; 7; 12; 17; 22; 7; 12; 17; 22; 5; 9; 14; 20; 5; 9; 14; 20; 5; 9; 14; 20; 5; 9; 14; 20; 4; 11; 16; 23; 4; 11; 16; 23; 4; 11; 16; 23; 4; 11; 16; 23; 6; 10; 15; 21; 6; 10; 15; 21; 6; 10; 15; 21; 6; 10; 15; 21].
Definition keccak_rc : list N := [1; 32898; 9223372036854808714; 9223372039002292224; 32907; 2147483649; 9223372039002292353; 9223372036854808585; 138; 136; 2147516425; 2147483658; 2147516555; 9223372036854775947; 9223372036854808713; 9223372036854808579; 9223372036854808578; 9223372036854775936; 32778; 9223372039002259466; 9223372039002292353; 9223372036854808704; 2147483649; 9223372039002292232].
Definition keccak_rot : list N := [0; 1; 62; 28; 27; 36; 44; 6; 55; 20; 3; 10; 43; 25; 39; 41; 45; 15; 21; 8; 18; 2; 61; 56; 14].

(* ---- words and bytes ------------------------------------------------------------ *)

Definition wmask (bits : N) : N := 2 ^ bits - 1.
Definition wtrunc (bits x : N) : N := N.land x (wmask bits).
Definition wadd (bits x y : N) : N := wtrunc bits (x + y).
Definition wnot (bits x : N) : N := N.lxor (wtrunc bits x) (wmask bits).
Definition rotl (bits n x : N) : N :=
  N.lor (wtrunc bits (N.shiftl x n)) (N.shiftr (wtrunc bits x) (bits - n)).
Definition rotr (bits n x : N) : N := rotl bits (bits - n) x.

(* the n low-order bytes of x, most significant first / least significant first *)
Fixpoint be_bytes (n : nat) (x : N) : list N :=
  match n with
  | O => []
  | S k => be_bytes k (x / 256) ++ [x mod 256]
  end.
Fixpoint le_bytes (n : nat) (x : N) : list N :=
  match n with
  | O => []
  | S k => (x mod 256) :: le_bytes k (x / 256)
  end.
Definition be_word (bs : list N) : N := fold_left (fun acc b => acc * 256 + b) bs 0.
Definition le_word (bs : list N) : N := fold_right (fun b acc => acc * 256 + b) 0 bs.

(* split into chunks of n elements (the last one may be shorter) *)
Fixpoint chunks_fuel {A} (fuel n : nat) (l : list A) : list (list A) :=
  match fuel with
  | O => []
  | S f => match l with
           | [] => []
           | _ => firstn n l :: chunks_fuel f n (skipn n l)
           end
  end.
Definition chunks {A} (n : nat) (l : list A) : list (list A) := chunks_fuel (S (length l)) n l.

Definition nthd (l : list N) (i : nat) : N := nth i l 0.

(* Merkle-Damgard padding: 0x80, zeros, then the bit length on [lenbytes] bytes *)
Definition md_pad (block lenbytes : nat) (big_endian : bool) (msg : list N) : list N :=
  let len := length msg in
  let bitlen := 8 * N.of_nat len in
  let used := ((len + 1 + lenbytes) mod block)%nat in
  let zeros := ((block - used) mod block)%nat in
  msg ++ [128] ++ repeat 0 zeros ++ (if big_endian then be_bytes lenbytes bitlen else le_bytes lenbytes bitlen).

Definition hex_digit (d : N) : N := if d <? 10 then 48 + d else 87 + d.
Definition hex_of_bytes (bs : list N) : list N := flat_map (fun b => [hex_digit (b / 16); hex_digit (b mod 16)]) bs.

(* ---- SHA-2 (parametric in the word size) ---------------------------------------- *)

Record sha2_params := {
  s2_bits : N; s2_wbytes : nat; s2_rounds : nat; s2_k : list N; s2_h : list N;
  s2_bs0 : N * N * N; s2_bs1 : N * N * N;      (* big sigma rotations *)
  s2_ss0 : N * N * N; s2_ss1 : N * N * N       (* small sigma: two rotations and a shift *)
}.

Section Sha2.
  Variable P : sha2_params.
  Let bits := s2_bits P.
  Definition s2_rot3 (r : N * N * N) (x : N) : N :=
    let '(a, b, c) := r in N.lxor (N.lxor (rotr bits a x) (rotr bits b x)) (rotr bits c x).
  Definition s2_rot2s (r : N * N * N) (x : N) : N :=
    let '(a, b, c) := r in N.lxor (N.lxor (rotr bits a x) (rotr bits b x)) (N.shiftr x c).
  Definition s2_ch (x y z : N) : N := N.lxor (N.land x y) (N.land (wnot bits x) z).
  Definition s2_maj (x y z : N) : N := N.lxor (N.lxor (N.land x y) (N.land x z)) (N.land y z).

  (* message schedule, most recent word first *)
  Fixpoint s2_extend (n : nat) (ws : list N) : list N :=
    match n with
    | O => ws
    | S k =>
        let w := wadd bits (wadd bits (s2_rot2s (s2_ss1 P) (nthd ws 1)) (nthd ws 6))
                           (wadd bits (s2_rot2s (s2_ss0 P) (nthd ws 14)) (nthd ws 15)) in
        s2_extend k (w :: ws)
    end.

  Definition s2_round (st : list N) (kw : N * N) : list N :=
    match st with
    | [a; b; c; d; e; f; g; h] =>
        let t1 := wadd bits (wadd bits (wadd bits h (s2_rot3 (s2_bs1 P) e)) (s2_ch e f g)) (wadd bits (fst kw) (snd kw)) in
        let t2 := wadd bits (s2_rot3 (s2_bs0 P) a) (s2_maj a b c) in
        [wadd bits t1 t2; a; b; c; wadd bits d t1; e; f; g]
    | _ => st
    end.

  Definition s2_compress (h : list N) (block : list N) : list N :=
    let w16 := map be_word (chunks (s2_wbytes P) block) in
    let ws := rev (s2_extend (s2_rounds P - 16) (rev w16)) in
    let st := fold_left s2_round (combine (s2_k P) ws) h in
    map (fun p => wadd bits (fst p) (snd p)) (combine h st).

  Definition sha2 (msg : list N) : list N :=
    let padded := md_pad (16 * s2_wbytes P) (2 * s2_wbytes P) true msg in
    let h := fold_left s2_compress (chunks (16 * s2_wbytes P) padded) (s2_h P) in
    flat_map (be_bytes (s2_wbytes P)) h.
End Sha2.

Definition sha256_params : sha2_params :=
  {| s2_bits := 32; s2_wbytes := 4; s2_rounds := 64; s2_k := k256; s2_h := h256;
     s2_bs0 := (2, 13, 22); s2_bs1 := (6, 11, 25); s2_ss0 := (7, 18, 3); s2_ss1 := (17, 19, 10) |}.
Definition sha512_params : sha2_params :=
  {| s2_bits := 64; s2_wbytes := 8; s2_rounds := 80; s2_k := k512; s2_h := h512;
     s2_bs0 := (28, 34, 39); s2_bs1 := (14, 18, 41); s2_ss0 := (1, 8, 7); s2_ss1 := (19, 61, 6) |}.
Definition sha256 : list N -> list N := sha2 sha256_params.
Definition sha512 : list N -> list N := sha2 sha512_params.

(* ---- SHA-1 ------------------------------------------------------------------------- *)

Fixpoint sha1_extend (n : nat) (ws : list N) : list N :=
  match n with
  | O => ws
  | S k =>
      let w := rotl 32 1 (N.lxor (N.lxor (nthd ws 2) (nthd ws 7)) (N.lxor (nthd ws 13) (nthd ws 15))) in
      sha1_extend k (w :: ws)
  end.

Definition sha1_round (st : list N) (tw : N * N) : list N :=
  match st with
  | [a; b; c; d; e] =>
      let t := fst tw in
      let f := if t <? 20 then N.lor (N.land b c) (N.land (wnot 32 b) d)
               else if t <? 40 then N.lxor (N.lxor b c) d
               else if t <? 60 then N.lor (N.lor (N.land b c) (N.land b d)) (N.land c d)
               else N.lxor (N.lxor b c) d in
      let k := if t <? 20 then 1518500249 else if t <? 40 then 1859775393
               else if t <? 60 then 2400959708 else 3395469782 in
      let tmp := wadd 32 (wadd 32 (wadd 32 (rotl 32 5 a) f) (wadd 32 e k)) (snd tw) in
      [tmp; a; rotl 32 30 b; c; d]
  | _ => st
  end.

Definition sha1_compress (h : list N) (block : list N) : list N :=
  let w16 := map be_word (chunks 4 block) in
  let ws := rev (sha1_extend 64 (rev w16)) in
  let st := fold_left sha1_round (combine (map N.of_nat (seq 0 80)) ws) h in
  map (fun p => wadd 32 (fst p) (snd p)) (combine h st).

Definition sha1 (msg : list N) : list N :=
  let h := fold_left sha1_compress (chunks 64 (md_pad 64 8 true msg))
                     [1732584193; 4023233417; 2562383102; 271733878; 3285377520] in
  flat_map (be_bytes 4) h.

(* ---- MD5 --------------------------------------------------------------------------- *)

Definition md5_round (m : list N) (st : list N) (i : nat) : list N :=
  match st with
  | [a; b; c; d] =>
      let f := if (i <? 16)%nat then N.lor (N.land b c) (N.land (wnot 32 b) d)
               else if (i <? 32)%nat then N.lor (N.land d b) (N.land (wnot 32 d) c)
               else if (i <? 48)%nat then N.lxor (N.lxor b c) d
               else N.lxor c (N.lor b (wnot 32 d)) in
      let g := if (i <? 16)%nat then i
               else if (i <? 32)%nat then ((5 * i + 1) mod 16)%nat
               else if (i <? 48)%nat then ((3 * i + 5) mod 16)%nat
               else ((7 * i) mod 16)%nat in
      let x := wadd 32 (wadd 32 f a) (wadd 32 (nthd kmd5 i) (nthd m g)) in
      [d; wadd 32 b (rotl 32 (nthd smd5 i) x); b; c]
  | _ => st
  end.

Definition md5_compress (h : list N) (block : list N) : list N :=
  let m := map le_word (chunks 4 block) in
  let st := fold_left (md5_round m) (seq 0 64) h in
  map (fun p => wadd 32 (fst p) (snd p)) (combine h st).

Definition md5 (msg : list N) : list N :=
  let h := fold_left md5_compress (chunks 64 (md_pad 64 8 false msg))
                     [1732584193; 4023233417; 2562383102; 271733878] in
  flat_map (le_bytes 4) h.

(* ---- SHA3-512 (Keccak-f[1600], rate 72 bytes, domain bits 01 then pad10*1) --------- *)

Definition lane (st : list N) (x y : nat) : N := nthd st ((x mod 5) + 5 * (y mod 5)).

Definition keccak_theta (st : list N) : list N :=
  let c := map (fun x => N.lxor (N.lxor (N.lxor (lane st x 0) (lane st x 1)) (N.lxor (lane st x 2) (lane st x 3))) (lane st x 4))
               (seq 0 5) in
  let d := map (fun x => N.lxor (nthd c ((x + 4) mod 5)) (rotl 64 1 (nthd c ((x + 1) mod 5)))) (seq 0 5) in
  map (fun i => N.lxor (nthd st i) (nthd d (i mod 5))) (seq 0 25).

(* rho and pi: B[y, 2x+3y] = rot(A[x,y], r[x,y]); for the target (x', y') the source is
   x = (x' + 3 y') mod 5, y = x' *)
Definition keccak_rho_pi (a : list N) : list N :=
  map (fun i =>
         let x' := (i mod 5)%nat in let y' := (i / 5)%nat in
         let x := ((x' + 3 * y') mod 5)%nat in let y := x' in
         rotl 64 (nthd keccak_rot (x + 5 * y)) (nthd a (x + 5 * y)))
      (seq 0 25).

Definition keccak_chi (b : list N) : list N :=
  map (fun i =>
         let x := (i mod 5)%nat in let y := (i / 5)%nat in
         N.lxor (lane b x y) (N.land (wnot 64 (lane b (x + 1) y)) (lane b (x + 2) y)))
      (seq 0 25).

Definition keccak_iota (e : list N) (rc : N) : list N :=
  map (fun i => if (i =? 0)%nat then N.lxor (nthd e i) rc else nthd e i) (seq 0 25).

Definition keccak_round (st : list N) (rc : N) : list N :=
  keccak_iota (keccak_chi (keccak_rho_pi (keccak_theta st))) rc.

Definition keccak_f (st : list N) : list N := fold_left keccak_round keccak_rc st.

Definition sha3_absorb (st : list N) (block : list N) : list N :=
  let lanes := map le_word (chunks 8 block) in     (* 9 lanes *)
  keccak_f (map (fun i => N.lxor (nthd st i) (nthd lanes i)) (seq 0 25)).

Definition sha3_pad (rate : nat) (msg : list N) : list N :=
  let q := (rate - (length msg mod rate))%nat in
  if (q =? 1)%nat then msg ++ [134]                     (* 0x06 | 0x80 *)
  else msg ++ [6] ++ repeat 0 (q - 2) ++ [128].

Definition sha3_512 (msg : list N) : list N :=
  let st := fold_left sha3_absorb (chunks 72 (sha3_pad 72 msg)) (repeat 0 25) in
  firstn 64 (flat_map (le_bytes 8) st).

(* ---- the builtins -------------------------------------------------------------------- *)
Definition std_md5 (s : list N) : list N := hex_of_bytes (md5 (encode_utf8 s)).
Definition std_sha1 (s : list N) : list N := hex_of_bytes (sha1 (encode_utf8 s)).
Definition std_sha256 (s : list N) : list N := hex_of_bytes (sha256 (encode_utf8 s)).
Definition std_sha512 (s : list N) : list N := hex_of_bytes (sha512 (encode_utf8 s)).
Definition std_sha3 (s : list N) : list N := hex_of_bytes (sha3_512 (encode_utf8 s)).
