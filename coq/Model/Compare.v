(* Model/Compare.v — equality and ordering of values, as evaluated by
   rsjsonnet-lang/src/program/eval/mod.rs (State::EqualsValue / EqualsArray /
   EqualsObject / CompareValue / CompareArray / CmpOrdToXxx), expr.rs (lowering of
   == != < <= > >=), call.rs + stdlib.rs (std.equals, std.__compare,
   std.__compare_array, std.primitiveEquals).

   Values are *lazy trees*: an array element or an object field is a thunk; in
   the model a thunk is the tree it evaluates to, or the leaf [LFail e] when
   evaluating it fails with e.  A function never looks at a thunk without
   forcing it, so "forced" = "the head constructor was inspected", and a forced
   [LFail e] ends the whole evaluation with [Err e] (Jsonnet has no catch).

   What is mirrored exactly: which type combinations give an answer / which error;
   that array `==` tests the lengths before forcing any element while `<` walks
   element by element and decides "shorter is smaller" only after the common prefix
   compared equal; that object `==` compares the lists of *visible* field names
   first (no forcing, no asserts), runs the object asserts (lhs, then rhs) only
   when those lists are equal and non-empty, then forces lhs field, rhs field in
   field order; that every loop stops at the first deciding position; that the
   lhs is forced before the rhs everywhere.  Numbers compare with IEEE `==` /
   `partial_cmp().unwrap()` (panic on NaN), strings as Rust `str` (UTF-8 bytes).

   Not mirrored: the stack-trace items pushed by the states (C10/C16), the
   `asserts_checked` memo bit (an object whose asserts already ran successfully is
   the same as one without asserts; one whose asserts failed ended the program).
   The two loops are written as "if this item is equal go on, else answer"; the
   Rust states special-case the last index (the item's answer is left on the
   stack as the answer of the whole) — extensionally the same function.
   No proofs in this file. *)
From RJ Require Import Base.Outcome Base.F64 Model.Utf8Order.
From Coq Require Import Floats.SpecFloat.
Local Open Scope outcome_scope.

(* EvalErrorValueType *)
Inductive vty := TyNull | TyBool | TyNumber | TyString | TyArray | TyObject | TyFunction.

(* EvalErrorKind, the variants that can come out of a comparison *)
Inductive err :=
| EUser (msg : list N)                   (* ExplicitError: `error "msg"` in a forced thunk *)
| EAssert (msg : option (list N))        (* AssertFailed: an object assert forced by == *)
| EOther (tag : N)                       (* any other failure of a forced thunk *)
| ECompareFunctions
| ECompareNull                           (* CompareNullInequality *)
| ECompareBool                           (* CompareBooleanInequality *)
| ECompareObject                         (* CompareObjectInequality *)
| ECompareDifferentTypes (l r : vty)     (* CompareDifferentTypesInequality *)
| EPrimEqNonPrimitive (t : vty)          (* PrimitiveEqualsNonPrimitive *)
| EInvalidArg (idx : N) (got : vty).     (* InvalidStdFuncArgType of __compare_array *)

(* ast::Visibility as merged by ObjectData::get_fields_order *)
Inductive vis := VDefault | VHidden | VForce.
Definition visible (v : vis) : bool := match v with VHidden => false | _ => true end.

Inductive lval :=
| LNull
| LBool (b : bool)
| LNum (x : f64)
| LStr (s : list N)
| LArr (xs : list lval)
| LObj (asrt : option err) (fs : list (list N * vis * lval))
      (* asrt = Some e: running the object's asserts fails with e.
         fs = ObjectData::get_fields_order(), i.e. sorted by name (bytes), no duplicates *)
| LFun
| LFail (e : err).

Definition field := (list N * vis * lval)%type.
Definition fname (f : field) : list N := fst (fst f).
Definition fvis (f : field) : vis := snd (fst f).
Definition fval (f : field) : lval := snd f.

Definition ty_of (a : lval) : vty :=
  match a with
  | LNull => TyNull | LBool _ => TyBool | LNum _ => TyNumber | LStr _ => TyString
  | LArr _ => TyArray | LObj _ _ => TyObject | LFun => TyFunction
  | LFail _ => TyNull    (* never asked: a failing thunk ends the evaluation first *)
  end.

(* get_visible_fields_order *)
Fixpoint vis_names (fs : list field) : list (list N) :=
  match fs with
  | [] => []
  | f :: r => if visible (fvis f) then fname f :: vis_names r else vis_names r
  end.

(* Vec<InternedStr> == Vec<InternedStr> *)
Fixpoint names_eqb (a b : list (list N)) : bool :=
  match a, b with
  | [], [] => true
  | x :: a', y :: b' => list_eqb x y && names_eqb a' b'
  | _, _ => false
  end.

(* find_object_field_thunk(obj, 0, name): the field of that name, whatever its visibility *)
Fixpoint lookup (n : list N) (fs : list field) : option lval :=
  match fs with
  | [] => None
  | f :: r => if list_eqb (fname f) n then Some (fval f) else lookup n r
  end.

(* check_object_asserts *)
Definition run_asserts (asrt : option err) : outcome unit err :=
  match asrt with None => Ok tt | Some e => Err e end.

Definition site_unwrap_field : string := "eval/mod.rs:EqualsObject:find_object_field_thunk unwrap".
Definition site_nan : string := "eval/mod.rs:CompareValue:partial_cmp unwrap on NaN".

(* State::EqualsValue with both operands already pushed as thunks: DoThunk(lhs), DoThunk(rhs), EqualsValue *)
Fixpoint equals (a b : lval) {struct a} : outcome bool err :=
  match a with
  | LFail e => Err e
  | LNull =>
      match b with LFail e => Err e | LNull => Ok true | _ => Ok false end
  | LBool x =>
      match b with LFail e => Err e | LBool y => Ok (Bool.eqb x y) | _ => Ok false end
  | LNum x =>
      match b with LFail e => Err e | LNum y => Ok (f_eqb x y) | _ => Ok false end
  | LStr s =>
      match b with LFail e => Err e | LStr t => Ok (str_eqb s t) | _ => Ok false end
  | LFun =>
      match b with LFail e => Err e | LFun => Err ECompareFunctions | _ => Ok false end
  | LArr xs =>
      match b with
      | LFail e => Err e
      | LArr ys =>
          if Nat.eqb (List.length xs) (List.length ys) then
            (fix eq_items (xs ys : list lval) {struct xs} : outcome bool err :=
               match xs, ys with
               | x :: xs', y :: ys' =>
                   do r <- equals x y;
                   if r then eq_items xs' ys' else Ok false
               | _, _ => Ok true
               end) xs ys
          else Ok false
      | _ => Ok false
      end
  | LObj aa fa =>
      match b with
      | LFail e => Err e
      | LObj ab fb =>
          if names_eqb (vis_names fa) (vis_names fb) then
            match vis_names fa with
            | [] => Ok true
            | _ :: _ =>
                do _ <- run_asserts aa;
                do _ <- run_asserts ab;
                (fix eq_fields (fa : list field) {struct fa} : outcome bool err :=
                   match fa with
                   | [] => Ok true
                   | (n, v, x) :: fa' =>
                       if visible v then
                         match lookup n fb with
                         | None => Panic site_unwrap_field
                         | Some y =>
                             do r <- equals x y;
                             if r then eq_fields fa' else Ok false
                         end
                       else eq_fields fa'
                   end) fa
            end
          else Ok false
      | _ => Ok false
      end
  end.

(* State::CompareValue *)
Fixpoint compare (a b : lval) {struct a} : outcome comparison err :=
  match a with
  | LFail e => Err e
  | LNull =>
      match b with
      | LFail e => Err e | LNull => Err ECompareNull
      | _ => Err (ECompareDifferentTypes TyNull (ty_of b)) end
  | LBool _ =>
      match b with
      | LFail e => Err e | LBool _ => Err ECompareBool
      | _ => Err (ECompareDifferentTypes TyBool (ty_of b)) end
  | LObj _ _ =>
      match b with
      | LFail e => Err e | LObj _ _ => Err ECompareObject
      | _ => Err (ECompareDifferentTypes TyObject (ty_of b)) end
  | LFun =>
      match b with
      | LFail e => Err e | LFun => Err ECompareFunctions
      | _ => Err (ECompareDifferentTypes TyFunction (ty_of b)) end
  | LNum x =>
      match b with
      | LFail e => Err e
      | LNum y => match f_compare x y with Some c => Ok c | None => Panic site_nan end
      | _ => Err (ECompareDifferentTypes TyNumber (ty_of b))
      end
  | LStr s =>
      match b with
      | LFail e => Err e
      | LStr t => Ok (str_compare s t)
      | _ => Err (ECompareDifferentTypes TyString (ty_of b))
      end
  | LArr xs =>
      match b with
      | LFail e => Err e
      | LArr ys =>
          (fix cmp_items (xs ys : list lval) {struct xs} : outcome comparison err :=
             match xs, ys with
             | [], [] => Ok Eq
             | [], _ :: _ => Ok Lt
             | _ :: _, [] => Ok Gt
             | x :: xs', y :: ys' =>
                 do c <- compare x y;
                 match c with Eq => cmp_items xs' ys' | _ => Ok c end
             end) xs ys
      | _ => Err (ECompareDifferentTypes TyArray (ty_of b))
      end
  end.

(* std::cmp::Ordering::{is_lt,is_le,is_gt,is_ge}, CmpOrdToIntValueThreeWay *)
Definition is_lt (c : comparison) : bool := match c with Lt => true | _ => false end.
Definition is_le (c : comparison) : bool := match c with Gt => false | _ => true end.
Definition is_gt (c : comparison) : bool := match c with Gt => true | _ => false end.
Definition is_ge (c : comparison) : bool := match c with Lt => false | _ => true end.
Definition three_way (c : comparison) : Z := match c with Lt => (-1)%Z | Eq => 0%Z | Gt => 1%Z end.

(* expr.rs, ir::Expr::Binary *)
Definition op_eq (a b : lval) : outcome bool err := equals a b.
Definition op_ne (a b : lval) : outcome bool err := omap negb (equals a b).   (* InvertBool *)
Definition op_lt (a b : lval) : outcome bool err := omap is_lt (compare a b).
Definition op_le (a b : lval) : outcome bool err := omap is_le (compare a b).
Definition op_gt (a b : lval) : outcome bool err := omap is_gt (compare a b).
Definition op_ge (a b : lval) : outcome bool err := omap is_ge (compare a b).

(* call.rs BuiltInFunc::Equals / Compare *)
Definition std_equals (a b : lval) : outcome bool err := equals a b.
Definition std_compare (a b : lval) : outcome Z err := omap three_way (compare a b).

Definition is_arr (a : lval) : bool := match a with LArr _ => true | _ => false end.

(* DoThunk(arg0), DoThunk(arg1), then a function of the two forced values *)
Definition force2 {R} (a b : lval) (k : outcome R err) : outcome R err :=
  match a with
  | LFail e => Err e
  | _ => match b with LFail e => Err e | _ => k end
  end.

(* stdlib.rs do_std_compare_array *)
Definition std_compare_array (a b : lval) : outcome Z err :=
  force2 a b
    (if negb (is_arr a) then Err (EInvalidArg 0 (ty_of a))
     else if negb (is_arr b) then Err (EInvalidArg 1 (ty_of b))
     else omap three_way (compare a b)).

(* stdlib.rs do_std_primitive_equals *)
Definition std_primitive_equals (a b : lval) : outcome bool err :=
  force2 a b
    match a, b with
    | LNull, LNull => Ok true
    | LBool x, LBool y => Ok (Bool.eqb x y)
    | LNum x, LNum y => Ok (f_eqb x y)
    | LStr s, LStr t => Ok (str_eqb s t)
    | LArr _, LArr _ => Err (EPrimEqNonPrimitive TyArray)
    | LObj _ _, LObj _ _ => Err (EPrimEqNonPrimitive TyObject)
    | LFun, LFun => Err ECompareFunctions
    | _, _ => Ok false
    end.

(* ---- the interface used by the correspondence driver ---- *)
Inductive op := OpEq | OpNe | OpLt | OpLe | OpGt | OpGe
              | OpStdEquals | OpStdCompare | OpStdCompareArray | OpStdPrimitiveEquals.
Inductive res := RBool (b : bool) | RInt (z : Z).

Definition run_op (o : op) (a b : lval) : outcome res err :=
  match o with
  | OpEq => omap RBool (op_eq a b)
  | OpNe => omap RBool (op_ne a b)
  | OpLt => omap RBool (op_lt a b)
  | OpLe => omap RBool (op_le a b)
  | OpGt => omap RBool (op_gt a b)
  | OpGe => omap RBool (op_ge a b)
  | OpStdEquals => omap RBool (std_equals a b)
  | OpStdCompare => omap RInt (std_compare a b)
  | OpStdCompareArray => omap RInt (std_compare_array a b)
  | OpStdPrimitiveEquals => omap RBool (std_primitive_equals a b)
  end.
