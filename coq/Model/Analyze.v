(* Model/Analyze.v — mirror of rsjsonnet-lang/src/program/analyze.rs.

   The analyzer walks the public AST once, threading an environment
   (set of variable names in scope + "inside an object" flag), and either
   lowers the program to the IR (Model/Ir.v) or stops at the FIRST scoping
   error in its traversal order.  The traversal order below is the one of the
   Rust code (it decides which error is reported when there are several):

   - Local:      all binder names (repeat check), then every bound value in
                 order, then the body;
   - Function:   all parameter names (repeat check), then the defaults in
                 order, then the body;
   - Object:     all object-local names (repeat check); then the members in
                 order, and for a field its VALUE first, then its name
                 (static name: repeat check; computed name: analysed in the
                 OUTER environment);
   - Object comprehension: the for/if clauses left to right, then the local
                 names (repeat check), the local values, the field-name
                 expression (environment after the clauses, NOT the object's),
                 the field value;
   - Call:       callee, then arguments left to right (a positional one after
                 a named one is refused before being analysed);
   - import:     the path is not analysed, only its syntactic class matters.

   Representation: [FHashSet<InternedStr>] is a list of names with membership
   test, [FHashMap<InternedStr, _>] an association list; the explicit stack of
   [analyze_expr] (arrays, binary and unary operators) is ordinary structural
   recursion, which visits the same nodes in the same order.

   Panic sites of the Rust code kept as [Panic]:
   - [format!("{}e{}", digits, exp).parse().unwrap()] (number literals);
   - [fields[*entry.get()]] (index into the fields collected so far).
   No proofs in this file. *)
From RJ Require Import Base.Outcome Model.Token Model.Ast Model.Ir.
Local Open Scope N_scope.
Local Open Scope outcome_scope.

(* pub enum AnalyzeError (program/error.rs), same order *)
Inductive analyze_error :=
| UnknownVariable (sp : span) (name : str)
| SelfOutsideObject (self_span : span)
| SuperOutsideObject (super_span : span)
| DollarOutsideObject (dollar_span : span)
| RepeatedLocalName (original_span repeated_span : span) (name : str)
| RepeatedFieldName (original_span repeated_span : span) (name : str)
| RepeatedParamName (original_span repeated_span : span) (name : str)
| PositionalArgAfterNamed (arg_span : span)
| TextBlockAsImportPath (sp : span)
| ComputedImportPath (sp : span).

Definition res (A : Type) := outcome A analyze_error.

(* struct Env { is_obj, vars } *)
Record env := mk_env { is_obj : bool; vars : list str }.

Definition env_contains (e : env) (n : str) : bool := existsb (str_eqb n) (vars e).
Definition env_insert (n : str) (e : env) : env := mk_env (is_obj e) (n :: vars e).
Definition env_set_obj (e : env) : env := mk_env true (vars e).

Fixpoint assoc {A : Type} (n : str) (l : list (str * A)) : option A :=
  match l with
  | [] => None
  | (k, v) :: rest => if str_eqb n k then Some v else assoc n rest
  end.

(* ---- number literals: does [format!("{digits}e{exp}").parse::<f64>()] succeed?
   Rust's grammar for the mantissa part (core::num::dec2flt): optional sign,
   digits, optional '.', digits, at least one digit in total; anything else
   followed by "e<exp>" is rejected.  The lexer only produces non-empty runs of
   ASCII digits. *)
Definition is_digit (c : N) : bool := (48 <=? c) && (c <=? 57).

Fixpoint skip_digits (s : str) : nat * str :=
  match s with
  | c :: r => if is_digit c then let (k, r') := skip_digits r in (S k, r') else (O, s)
  | [] => (O, [])
  end.

Definition number_parses (n : number) : bool :=
  let s := num_digits n in
  let s := match s with
           | c :: r => if (c =? 43) || (c =? 45) then r else s
           | [] => s
           end in
  let (k1, r1) := skip_digits s in
  match r1 with
  | [] => negb (Nat.eqb k1 0)
  | c :: r2 =>
      if c =? 46 then
        let (k2, r3) := skip_digits r2 in
        match r3 with
        | [] => negb (Nat.eqb (k1 + k2) 0)
        | _ => false
        end
      else false
  end.

(* ---- list / option traversals, left to right, first failure wins ---- *)
Definition mapM {A B : Type} (f : A -> res B) : list A -> res (list B) :=
  fix go (l : list A) : res (list B) :=
    match l with
    | [] => Ok []
    | x :: t => do y <- f x; do ys <- go t; Ok (y :: ys)
    end.

Definition optM {A B : Type} (f : A -> res B) (o : option A) : res (option B) :=
  match o with
  | None => Ok None
  | Some x => do y <- f x; Ok (Some y)
  end.

(* ---- the "names" loop shared by Local, object locals and parameters:
   a name already declared in this binder group is an error (original span
   first recorded, repeated span = this one); otherwise it enters the
   environment. *)
Fixpoint declare_names (mk : span -> span -> str -> analyze_error) (ids : list ident)
         (seen : list (str * span)) (e : env) : res env :=
  match ids with
  | [] => Ok e
  | i :: rest =>
      match assoc (id_value i) seen with
      | Some orig => Err (mk orig (id_span i) (id_value i))
      | None => declare_names mk rest ((id_value i, id_span i) :: seen)
                              (env_insert (id_value i) e)
      end
  end.

Definition param_ident (p : param) : ident := match p with MkParam n _ => n end.
Definition param_default (p : param) : option expr := match p with MkParam _ d => d end.
Definition bind_ident (b : bind) : ident := match b with MkBind n _ _ => n end.

(* object-level locals of a member list, in order *)
Fixpoint member_locals (ms : list member) : list bind :=
  match ms with
  | [] => []
  | MLocal b :: rest => b :: member_locals rest
  | _ :: rest => member_locals rest
  end.

Definition field_fname (f : field) : field_name :=
  match f with FValue n _ _ _ => n | FFunc n _ _ _ _ => n end.
Definition field_plus (f : field) : bool :=
  match f with FValue _ p _ _ => p | FFunc _ _ _ _ _ => false end.
Definition field_vis (f : field) : visibility :=
  match f with FValue _ _ v _ => v | FFunc _ _ _ v _ => v end.

Section WithAnalyzeExpr.
  (* the recursive knot: [ae] is [analyze_expr] itself *)
  Variable ae : expr -> env -> bool -> res ir.

  (* one parameter: its default value, if any, sees all the parameters *)
  Definition analyze_param_with (inner : env) (p : param) : res (str * option ir) :=
    match p with
    | MkParam n d => do d' <- optM (fun x => ae x inner false) d; Ok (id_value n, d')
    end.

  (* fn analyze_function *)
  Definition analyze_function_with (params : list param) (body : expr) (e : env) : res ir :=
    do inner <- declare_names RepeatedParamName (map param_ident params) [] e;
    do ps <- mapM (analyze_param_with inner) params;
    do b <- ae body inner true;
    Ok (IFunc ps b).

  (* fn analyze_assert *)
  Definition analyze_assert_with (a : assert_) (e : env) : res ir_assert :=
    match a with
    | MkAssert sp cond msg =>
        do c <- ae cond e false;
        do m <- optM (fun x => ae x e false) msg;
        Ok (MkIrAssert sp c (expr_span cond) m)
    end.

  (* fn analyze_comp_spec *)
  Definition analyze_comp_spec_with : list comp_spec -> env -> res (list ir_spec * env) :=
    fix go (specs : list comp_spec) (cur : env) : res (list ir_spec * env) :=
      match specs with
      | [] => Ok ([], cur)
      | CFor v inner :: rest =>
          do i <- ae inner cur false;
          do r <- go rest (env_insert (id_value v) cur);
          Ok (ISFor (id_value v) i (expr_span inner) :: fst r, snd r)
      | CIf c :: rest =>
          do i <- ae c cur false;
          do r <- go rest cur;
          Ok (ISIf i (expr_span c) :: fst r, snd r)
      end.

  (* the value of one binding (local or object local) *)
  Definition analyze_bind_with (inner : env) (b : bind) : res (str * ir) :=
    match b with
    | MkBind name params value =>
        do v <- match params with
                | Some (ps, _) => analyze_function_with ps value inner
                | None => ae value inner false
                end;
        Ok (id_value name, v)
    end.

  (* the argument loop of Call *)
  Definition analyze_args_with (e : env)
    : list arg -> list ir -> list (str * span * ir) -> res (list ir * list (str * span * ir)) :=
    fix go (args : list arg) (pos : list ir) (named : list (str * span * ir)) :=
      match args with
      | [] => Ok (pos, named)
      | APositional v :: rest =>
          match named with
          | [] => do x <- ae v e false; go rest (pos ++ [x]) named
          | _ :: _ => Err (PositionalArgAfterNamed (expr_span v))
          end
      | ANamed n v :: rest =>
          do x <- ae v e false; go rest pos (named ++ [(id_value n, id_span n, x)])
      end.

  (* a statically named field: repeat check against [fix_fields] *)
  Definition fix_field_name (fields : list ir_field) (fix_fields : list (str * nat))
             (name : str) (sp : span) : res (ir_fname * span * list (str * nat)) :=
    match assoc name fix_fields with
    | Some idx =>
        match nth_error fields idx with
        | Some f => Err (RepeatedFieldName (irf_name_span f) sp name)
        | None => Panic "analyze.rs:analyze_objinside:fields[index]"
        end
    | None => Ok (IFix name, sp, (name, length fields) :: fix_fields)
    end.

  Definition analyze_field_value_with (inner : env) (f : field) : res ir :=
    match f with
    | FValue _ _ _ v => ae v inner false
    | FFunc _ ps _ _ body => analyze_function_with ps body inner
    end.

  (* the name of a field, analysed AFTER its value; a computed name is analysed
     in the environment of the object expression itself ([outer]) *)
  Definition analyze_field_name_with (outer : env) (fields : list ir_field)
             (fix_fields : list (str * nat)) (n : field_name)
    : res (ir_fname * span * list (str * nat)) :=
    match n with
    | FnIdent i => fix_field_name fields fix_fields (id_value i) (id_span i)
    | FnString s sp => fix_field_name fields fix_fields s sp
    | FnExpr e sp => do x <- ae e outer false; Ok (IDyn x, sp, fix_fields)
    end.

  (* the member loop of ObjInside::Members: [outer] is the environment of the
     object expression itself, [inner] the one with the object locals and
     is_obj set *)
  Definition analyze_members_with (outer inner : env)
    : list member -> list (str * ir) -> list ir_assert -> list ir_field -> list (str * nat)
      -> res (list (str * ir) * list ir_assert * list ir_field) :=
    fix go (ms : list member) (locals : list (str * ir)) (asserts : list ir_assert)
           (fields : list ir_field) (fix_fields : list (str * nat)) :=
      match ms with
      | [] => Ok (locals, asserts, fields)
      | MLocal b :: rest =>
          do l <- analyze_bind_with inner b;
          go rest (locals ++ [l]) asserts fields fix_fields
      | MAssert a :: rest =>
          do a' <- analyze_assert_with a inner;
          go rest locals (asserts ++ [a']) fields fix_fields
      | MField f :: rest =>
          do value <- analyze_field_value_with inner f;
          do nm <- analyze_field_name_with outer fields fix_fields (field_fname f);
          go rest locals asserts
             (fields ++ [MkIrField (fst (fst nm)) (snd (fst nm)) (field_plus f) (field_vis f) value])
             (snd nm)
      end.

  (* fn analyze_objinside *)
  Definition analyze_objinside_with (o : obj_inside) (e : env) : res ir :=
    match o with
    | OMembers ms =>
        do inner <- declare_names RepeatedLocalName (map bind_ident (member_locals ms)) []
                                  (env_set_obj e);
        do r <- analyze_members_with e inner ms [] [] [] [];
        let '(locals, asserts, fields) := r in
        Ok (IObject (negb (is_obj e)) locals asserts fields)
    | OComp locals1 name plus body locals2 specs =>
        do cs <- analyze_comp_spec_with specs e;
        let '(comp_spec, e') := cs in
        do inner <- declare_names RepeatedLocalName (map bind_ident (locals1 ++ locals2)) []
                                  (env_set_obj e');
        (* locals1.iter().chain(locals2.iter()) *)
        do ls1 <- mapM (analyze_bind_with inner) locals1;
        do ls2 <- mapM (analyze_bind_with inner) locals2;
        let locals := ls1 ++ ls2 in
        do field_name <- ae name e' false;
        do field_value <- ae body inner false;
        Ok (IObjectComp (negb (is_obj e')) locals field_name (expr_span name) plus field_value
                        comp_spec)
    end.

  (* import / importstr / importbin: only the syntactic class of the path matters *)
  Definition analyze_import (mk : str -> span -> ir) (sp : span) (path : expr) : res ir :=
    match path with
    | EString _ s => Ok (mk s sp)
    | ETextBlock psp _ => Err (TextBlockAsImportPath psp)
    | other => Err (ComputedImportPath (expr_span other))
    end.
End WithAnalyzeExpr.

(* fn analyze_expr(expr, env, can_be_tailstrict) *)
Fixpoint analyze_expr (e : expr) (en : env) (ts : bool) {struct e} : res ir :=
  match e with
  | ENull _ => Ok INull
  | EBool _ b => Ok (IBool b)
  | ESelf sp => if is_obj en then Ok ISelfObj else Err (SelfOutsideObject sp)
  | EDollar sp => if is_obj en then Ok ITopObj else Err (DollarOutsideObject sp)
  | EString _ s => Ok (IString s)
  | ETextBlock _ s => Ok (IString s)
  | ENumber sp n =>
      if number_parses n then Ok (INumber n sp)
      else Panic "analyze.rs:analyze_expr:number parse unwrap"
  | EParen _ inner => analyze_expr inner en false
  | EObject _ o => analyze_objinside_with analyze_expr o en
  | EArray _ items => do its <- mapM (fun x => analyze_expr x en false) items; Ok (IArray its)
  | EArrayComp _ body specs =>
      do cs <- analyze_comp_spec_with analyze_expr specs en;
      do b <- analyze_expr body (snd cs) false;
      Ok (IArrayComp b (fst cs))
  | EField sp obj name =>
      do o <- analyze_expr obj en false; Ok (IField o (id_value name) sp)
  | EIndex sp obj idx =>
      do o <- analyze_expr obj en false;
      do i <- analyze_expr idx en false;
      Ok (IIndex o i sp)
  | ESlice sp arr a b c =>
      do r <- analyze_expr arr en false;
      do a' <- optM (fun x => analyze_expr x en false) a;
      do b' <- optM (fun x => analyze_expr x en false) b;
      do c' <- optM (fun x => analyze_expr x en false) c;
      Ok (ISlice r a' b' c' sp)
  | ESuperField sp ssp name =>
      if is_obj en then Ok (ISuperField ssp (id_value name) sp)
      else Err (SuperOutsideObject ssp)
  | ESuperIndex sp ssp idx =>
      if is_obj en then do i <- analyze_expr idx en false; Ok (ISuperIndex ssp i sp)
      else Err (SuperOutsideObject ssp)
  | ECall sp callee args tailstrict =>
      do c <- analyze_expr callee en false;
      do r <- analyze_args_with analyze_expr en args [] [];
      Ok (ICall c (fst r) (snd r) (ts && tailstrict) sp)
  | EIdent sp name =>
      if env_contains en (id_value name) then Ok (IVar (id_value name) sp)
      else Err (UnknownVariable (id_span name) (id_value name))
  | ELocal _ binds inner =>
      do inner_env <- declare_names RepeatedLocalName (map bind_ident binds) [] en;
      do bs <- mapM (analyze_bind_with analyze_expr inner_env) binds;
      do i <- analyze_expr inner inner_env ts;
      Ok (ILocal bs i)
  | EIf _ c t f =>
      do c' <- analyze_expr c en false;
      do t' <- analyze_expr t en ts;
      do f' <- optM (fun x => analyze_expr x en ts) f;
      Ok (IIf c' (expr_span c) t' f')
  | EBinary sp l op r =>
      do l' <- analyze_expr l en false;
      do r' <- analyze_expr r en false;
      Ok (IBinary op l' r' sp)
  | EUnary sp op r => do r' <- analyze_expr r en false; Ok (IUnary op r' sp)
  | EObjExt sp l o _ =>
      do l' <- analyze_expr l en false;
      do r' <- analyze_objinside_with analyze_expr o en;
      Ok (IBinary BAdd l' r' sp)
  | EFunc _ params body => analyze_function_with analyze_expr params body en
  | EAssert _ a inner =>
      do a' <- analyze_assert_with analyze_expr a en;
      do i <- analyze_expr inner en ts;
      Ok (IAssert a' i)
  | EImport sp path => analyze_import IImport sp path
  | EImportStr sp path => analyze_import IImportStr sp path
  | EImportBin sp path => analyze_import IImportBin sp path
  | EError sp msg => do m <- analyze_expr msg en false; Ok (IError m sp)
  | EInSuper sp l ssp =>
      if is_obj en then do l' <- analyze_expr l en false; Ok (IInSuper l' sp)
      else Err (SuperOutsideObject ssp)
  end.

(* Analyzer::analyze: top-level environment = the given names, not inside an object *)
Definition analyze (e : expr) (vs : list str) : res ir := analyze_expr e (mk_env false vs) false.

(* ---- every node of a syntax tree, in source order (used to say "located at
   a node of e" and "every number literal has the lexer's shape") ---- *)
Definition flat {A B : Type} (f : A -> list B) : list A -> list B :=
  fix go (l : list A) : list B := match l with [] => [] | x :: t => f x ++ go t end.

Definition opt_list {A B : Type} (f : A -> list B) (o : option A) : list B :=
  match o with None => [] | Some x => f x end.

Section WithNodes.
  Variable nd : expr -> list expr.
  Definition param_nodes (p : param) : list expr :=
    match p with MkParam _ d => opt_list nd d end.
  Definition bind_nodes (b : bind) : list expr :=
    match b with
    | MkBind _ ps v => opt_list (fun q => flat param_nodes (fst q)) ps ++ nd v
    end.
  Definition assert_nodes (a : assert_) : list expr :=
    match a with MkAssert _ c m => nd c ++ opt_list nd m end.
  Definition spec_nodes (c : comp_spec) : list expr :=
    match c with CFor _ e => nd e | CIf e => nd e end.
  Definition fname_nodes (n : field_name) : list expr :=
    match n with FnExpr e _ => nd e | _ => [] end.
  Definition field_nodes (f : field) : list expr :=
    match f with
    | FValue n _ _ v => fname_nodes n ++ nd v
    | FFunc n ps _ _ v => fname_nodes n ++ flat param_nodes ps ++ nd v
    end.
  Definition member_nodes (m : member) : list expr :=
    match m with
    | MLocal b => bind_nodes b
    | MAssert a => assert_nodes a
    | MField f => field_nodes f
    end.
  Definition arg_nodes (a : arg) : list expr :=
    match a with APositional e => nd e | ANamed _ e => nd e end.
  Definition obj_nodes (o : obj_inside) : list expr :=
    match o with
    | OMembers ms => flat member_nodes ms
    | OComp l1 n _ b l2 cs =>
        flat bind_nodes l1 ++ nd n ++ nd b ++ flat bind_nodes l2 ++ flat spec_nodes cs
    end.
End WithNodes.

Fixpoint nodes (e : expr) {struct e} : list expr :=
  e :: match e with
       | ENull _ | EBool _ _ | ESelf _ | EDollar _ | EString _ _ | ETextBlock _ _ | ENumber _ _
       | ESuperField _ _ _ | EIdent _ _ => []
       | EParen _ x | EField _ x _ | EUnary _ _ x | EImport _ x | EImportStr _ x
       | EImportBin _ x | EError _ x | EInSuper _ x _ | ESuperIndex _ _ x => nodes x
       | EObject _ o => obj_nodes nodes o
       | EArray _ items => flat nodes items
       | EArrayComp _ x cs => nodes x ++ flat (spec_nodes nodes) cs
       | EIndex _ a b | EBinary _ a _ b => nodes a ++ nodes b
       | ESlice _ x a b c => nodes x ++ opt_list nodes a ++ opt_list nodes b ++ opt_list nodes c
       | ECall _ f args _ => nodes f ++ flat (arg_nodes nodes) args
       | ELocal _ bs x => flat (bind_nodes nodes) bs ++ nodes x
       | EIf _ c t f => nodes c ++ nodes t ++ opt_list nodes f
       | EObjExt _ x o _ => nodes x ++ obj_nodes nodes o
       | EFunc _ ps x => flat (param_nodes nodes) ps ++ nodes x
       | EAssert _ a x => assert_nodes nodes a ++ nodes x
       end.

(* every number literal of the tree converts (true of every tree the parser builds) *)
Definition node_num_ok (e : expr) : bool :=
  match e with ENumber _ n => number_parses n | _ => true end.
Definition nums_ok (e : expr) : bool := forallb node_num_ok (nodes e).

(* the span(s) an error points at: repeated (or only) span first, then original *)
Definition error_spans (x : analyze_error) : list span :=
  match x with
  | UnknownVariable sp _ | SelfOutsideObject sp | SuperOutsideObject sp
  | DollarOutsideObject sp | PositionalArgAfterNamed sp | TextBlockAsImportPath sp
  | ComputedImportPath sp => [sp]
  | RepeatedLocalName o r _ | RepeatedFieldName o r _ | RepeatedParamName o r _ => [r; o]
  end.

Definition error_name (x : analyze_error) : option str :=
  match x with
  | UnknownVariable _ n | RepeatedLocalName _ _ n | RepeatedFieldName _ _ n
  | RepeatedParamName _ _ n => Some n
  | _ => None
  end.

(* ======================================================================
   Specification: the static rules of the Jsonnet specification, written on
   the surface syntax, independently of the traversal above.  [StaticOK vs io e]:
   with the variables [vs] in scope and [io] telling whether [e] stands inside
   an object, [e] has no scoping fault anywhere — every sub-expression is
   inspected, whether or not evaluation would ever reach it.

     - a variable must be in scope;
     - self, $ and super need an enclosing object;
     - the names bound by one local / one parameter list / the locals of one
       object are pairwise distinct, and so are the statically known field
       names of one object;
     - binders of one group see each other (locals, object locals, parameters
       in default arguments);
     - a computed field name is outside the object it names a field of: it
       sees neither the object's locals nor its self;
     - comprehension clauses scope left to right; the key of an object
       comprehension sees the clause variables only;
     - positional arguments precede named ones;
     - an import path is a plain string literal.
   ====================================================================== *)
Definition param_name (p : param) : str := id_value (param_ident p).
Definition bind_name (b : bind) : str := id_value (bind_ident b).

(* names of the statically named fields of a member list, in order *)
Fixpoint static_field_names (ms : list member) : list str :=
  match ms with
  | [] => []
  | MField (FValue (FnIdent i) _ _ _) :: rest
  | MField (FFunc (FnIdent i) _ _ _ _) :: rest => id_value i :: static_field_names rest
  | MField (FValue (FnString s _) _ _ _) :: rest
  | MField (FFunc (FnString s _) _ _ _ _) :: rest => s :: static_field_names rest
  | _ :: rest => static_field_names rest
  end.

Definition is_positional (a : arg) : Prop := match a with APositional _ => True | ANamed _ _ => False end.
Definition is_named (a : arg) : Prop := match a with APositional _ => False | ANamed _ _ => True end.
Definition positional_first (args : list arg) : Prop :=
  exists ps ns, args = ps ++ ns /\ Forall is_positional ps /\ Forall is_named ns.

Inductive StaticOK : list str -> bool -> expr -> Prop :=
| SO_Null vs io sp : StaticOK vs io (ENull sp)
| SO_Bool vs io sp b : StaticOK vs io (EBool sp b)
| SO_Self vs sp : StaticOK vs true (ESelf sp)
| SO_Dollar vs sp : StaticOK vs true (EDollar sp)
| SO_String vs io sp s : StaticOK vs io (EString sp s)
| SO_TextBlock vs io sp s : StaticOK vs io (ETextBlock sp s)
| SO_Number vs io sp n : StaticOK vs io (ENumber sp n)
| SO_Paren vs io sp e : StaticOK vs io e -> StaticOK vs io (EParen sp e)
| SO_Object vs io sp o : ObjOK vs io o -> StaticOK vs io (EObject sp o)
| SO_Array vs io sp items : Forall (StaticOK vs io) items -> StaticOK vs io (EArray sp items)
| SO_ArrayComp vs io sp e cs vs' :
    SpecsOK vs io cs vs' -> StaticOK vs' io e -> StaticOK vs io (EArrayComp sp e cs)
| SO_Field vs io sp e n : StaticOK vs io e -> StaticOK vs io (EField sp e n)
| SO_Index vs io sp e i : StaticOK vs io e -> StaticOK vs io i -> StaticOK vs io (EIndex sp e i)
| SO_Slice vs io sp e a b c :
    StaticOK vs io e ->
    (forall x, a = Some x -> StaticOK vs io x) ->
    (forall x, b = Some x -> StaticOK vs io x) ->
    (forall x, c = Some x -> StaticOK vs io x) ->
    StaticOK vs io (ESlice sp e a b c)
| SO_SuperField vs sp ssp n : StaticOK vs true (ESuperField sp ssp n)
| SO_SuperIndex vs sp ssp i : StaticOK vs true i -> StaticOK vs true (ESuperIndex sp ssp i)
| SO_Call vs io sp f args ts :
    StaticOK vs io f -> positional_first args -> Forall (ArgOK vs io) args ->
    StaticOK vs io (ECall sp f args ts)
| SO_Ident vs io sp n : In (id_value n) vs -> StaticOK vs io (EIdent sp n)
| SO_Local vs io sp binds body :
    NoDup (map bind_name binds) ->
    Forall (BindOK (map bind_name binds ++ vs) io) binds ->
    StaticOK (map bind_name binds ++ vs) io body ->
    StaticOK vs io (ELocal sp binds body)
| SO_If vs io sp c t f :
    StaticOK vs io c -> StaticOK vs io t -> (forall x, f = Some x -> StaticOK vs io x) ->
    StaticOK vs io (EIf sp c t f)
| SO_Binary vs io sp l op r : StaticOK vs io l -> StaticOK vs io r -> StaticOK vs io (EBinary sp l op r)
| SO_Unary vs io sp op e : StaticOK vs io e -> StaticOK vs io (EUnary sp op e)
| SO_ObjExt vs io sp e o osp : StaticOK vs io e -> ObjOK vs io o -> StaticOK vs io (EObjExt sp e o osp)
| SO_Func vs io sp ps body : FunctionOK vs io ps body -> StaticOK vs io (EFunc sp ps body)
| SO_Assert vs io sp a body : AssertOK vs io a -> StaticOK vs io body -> StaticOK vs io (EAssert sp a body)
| SO_Import vs io sp psp s : StaticOK vs io (EImport sp (EString psp s))
| SO_ImportStr vs io sp psp s : StaticOK vs io (EImportStr sp (EString psp s))
| SO_ImportBin vs io sp psp s : StaticOK vs io (EImportBin sp (EString psp s))
| SO_Error vs io sp e : StaticOK vs io e -> StaticOK vs io (EError sp e)
| SO_InSuper vs sp e ssp : StaticOK vs true e -> StaticOK vs true (EInSuper sp e ssp)

with ParamOK : list str -> bool -> param -> Prop :=
| PO_NoDefault vs io n : ParamOK vs io (MkParam n None)
| PO_Default vs io n d : StaticOK vs io d -> ParamOK vs io (MkParam n (Some d))

(* parameters are distinct; defaults and body see all of them *)
with FunctionOK : list str -> bool -> list param -> expr -> Prop :=
| FO_Intro vs io ps body :
    NoDup (map param_name ps) ->
    Forall (ParamOK (map param_name ps ++ vs) io) ps ->
    StaticOK (map param_name ps ++ vs) io body ->
    FunctionOK vs io ps body

with BindOK : list str -> bool -> bind -> Prop :=
| BO_Value vs io n v : StaticOK vs io v -> BindOK vs io (MkBind n None v)
| BO_Func vs io n ps psp v : FunctionOK vs io ps v -> BindOK vs io (MkBind n (Some (ps, psp)) v)

with AssertOK : list str -> bool -> assert_ -> Prop :=
| AO_Intro vs io sp c m :
    StaticOK vs io c -> (forall x, m = Some x -> StaticOK vs io x) -> AssertOK vs io (MkAssert sp c m)

(* [SpecsOK vs io clauses vs']: the clauses are fine in scope [vs], and leave [vs'] *)
with SpecsOK : list str -> bool -> list comp_spec -> list str -> Prop :=
| SP_Nil vs io : SpecsOK vs io [] vs
| SP_For vs io v e rest out :
    StaticOK vs io e -> SpecsOK (id_value v :: vs) io rest out -> SpecsOK vs io (CFor v e :: rest) out
| SP_If vs io e rest out :
    StaticOK vs io e -> SpecsOK vs io rest out -> SpecsOK vs io (CIf e :: rest) out

with ArgOK : list str -> bool -> arg -> Prop :=
| AR_Positional vs io e : StaticOK vs io e -> ArgOK vs io (APositional e)
| AR_Named vs io n e : StaticOK vs io e -> ArgOK vs io (ANamed n e)

with ObjOK : list str -> bool -> obj_inside -> Prop :=
| OO_Members vs io ms :
    NoDup (map bind_name (member_locals ms)) ->
    NoDup (static_field_names ms) ->
    Forall (MemberOK vs io (map bind_name (member_locals ms) ++ vs)) ms ->
    ObjOK vs io (OMembers ms)
| OO_Comp vs io l1 name plus body l2 cs vs' :
    SpecsOK vs io cs vs' ->
    NoDup (map bind_name (l1 ++ l2)) ->
    Forall (BindOK (map bind_name (l1 ++ l2) ++ vs') true) (l1 ++ l2) ->
    StaticOK vs' io name ->
    StaticOK (map bind_name (l1 ++ l2) ++ vs') true body ->
    ObjOK vs io (OComp l1 name plus body l2 cs)

(* [MemberOK outer io inner m]: [outer]/[io] is the scope of the object
   expression, [inner] the scope inside the object (locals added, self bound) *)
with MemberOK : list str -> bool -> list str -> member -> Prop :=
| MO_Local vs io inner b : BindOK inner true b -> MemberOK vs io inner (MLocal b)
| MO_Assert vs io inner a : AssertOK inner true a -> MemberOK vs io inner (MAssert a)
| MO_FieldValue vs io inner n plus vis v :
    FieldNameOK vs io n -> StaticOK inner true v -> MemberOK vs io inner (MField (FValue n plus vis v))
| MO_FieldFunc vs io inner n ps psp vis v :
    FieldNameOK vs io n -> FunctionOK inner true ps v ->
    MemberOK vs io inner (MField (FFunc n ps psp vis v))

with FieldNameOK : list str -> bool -> field_name -> Prop :=
| FN_Ident vs io i : FieldNameOK vs io (FnIdent i)
| FN_String vs io s sp : FieldNameOK vs io (FnString s sp)
| FN_Expr vs io e sp : StaticOK vs io e -> FieldNameOK vs io (FnExpr e sp).

(* ======================================================================
   Closedness of the lowered program, and the run-time side.

   [Closed L io i]: every variable the IR [i] mentions is bound by an enclosing
   IR binder or belongs to [L]; self / $ / super occur only below an object (or
   [io] holds).  Scopes are those the evaluator builds: a Local / Func / Object
   frame holds all the names of its group; comprehension clauses add their
   variable for what follows; a computed field name lives in the frame of the
   object expression, not in the object's.
   ====================================================================== *)
Inductive Closed : list str -> bool -> ir -> Prop :=
| CL_Null L io : Closed L io INull
| CL_Bool L io b : Closed L io (IBool b)
| CL_Number L io n sp : Closed L io (INumber n sp)
| CL_String L io s : Closed L io (IString s)
| CL_Object L io locals asserts fields :
    Forall (fun l => Closed (map fst locals ++ L) true (snd l)) locals ->
    Forall (ClosedAssert (map fst locals ++ L) true) asserts ->
    Forall (ClosedField L io (map fst locals ++ L)) fields ->
    Closed L io (IObject (negb io) locals asserts fields)
| CL_ObjectComp L io L' locals fname fsp plus fval specs :
    ClosedSpecs L io specs L' ->
    Forall (fun l => Closed (map fst locals ++ L') true (snd l)) locals ->
    Closed L' io fname ->
    Closed (map fst locals ++ L') true fval ->
    Closed L io (IObjectComp (negb io) locals fname fsp plus fval specs)
| CL_Array L io items : Forall (Closed L io) items -> Closed L io (IArray items)
| CL_ArrayComp L io L' value specs :
    ClosedSpecs L io specs L' -> Closed L' io value -> Closed L io (IArrayComp value specs)
| CL_Field L io o n sp : Closed L io o -> Closed L io (IField o n sp)
| CL_Index L io o i sp : Closed L io o -> Closed L io i -> Closed L io (IIndex o i sp)
| CL_Slice L io a x y z sp :
    Closed L io a ->
    (forall v, x = Some v -> Closed L io v) ->
    (forall v, y = Some v -> Closed L io v) ->
    (forall v, z = Some v -> Closed L io v) ->
    Closed L io (ISlice a x y z sp)
| CL_SuperField L ssp n sp : Closed L true (ISuperField ssp n sp)
| CL_SuperIndex L ssp i sp : Closed L true i -> Closed L true (ISuperIndex ssp i sp)
| CL_Call L io c pos named ts sp :
    Closed L io c -> Forall (Closed L io) pos -> Forall (fun a => Closed L io (snd a)) named ->
    Closed L io (ICall c pos named ts sp)
| CL_Var L io n sp : In n L -> Closed L io (IVar n sp)
| CL_SelfObj L : Closed L true ISelfObj
| CL_TopObj L : Closed L true ITopObj
| CL_Local L io bs inner :
    Forall (fun b => Closed (map fst bs ++ L) io (snd b)) bs ->
    Closed (map fst bs ++ L) io inner ->
    Closed L io (ILocal bs inner)
| CL_If L io c csp t e :
    Closed L io c -> Closed L io t -> (forall v, e = Some v -> Closed L io v) ->
    Closed L io (IIf c csp t e)
| CL_Binary L io op l r sp : Closed L io l -> Closed L io r -> Closed L io (IBinary op l r sp)
| CL_Unary L io op r sp : Closed L io r -> Closed L io (IUnary op r sp)
| CL_InSuper L l sp : Closed L true l -> Closed L true (IInSuper l sp)
| CL_IdentityFunc L io : Closed L io IIdentityFunc
| CL_Func L io ps body :
    Forall (fun p => forall d, snd p = Some d -> Closed (map fst ps ++ L) io d) ps ->
    Closed (map fst ps ++ L) io body ->
    Closed L io (IFunc ps body)
| CL_Error L io m sp : Closed L io m -> Closed L io (IError m sp)
| CL_Assert L io a inner : ClosedAssert L io a -> Closed L io inner -> Closed L io (IAssert a inner)
| CL_Import L io p sp : Closed L io (IImport p sp)
| CL_ImportStr L io p sp : Closed L io (IImportStr p sp)
| CL_ImportBin L io p sp : Closed L io (IImportBin p sp)
| CL_OtherError L io m : Closed L io (IOtherError m)

with ClosedAssert : list str -> bool -> ir_assert -> Prop :=
| CA_Intro L io sp c csp m :
    Closed L io c -> (forall v, m = Some v -> Closed L io v) ->
    ClosedAssert L io (MkIrAssert sp c csp m)

(* [ClosedField outer io inner f] *)
with ClosedField : list str -> bool -> list str -> ir_field -> Prop :=
| CF_Fix L io inner s nsp plus vis v :
    Closed inner true v -> ClosedField L io inner (MkIrField (IFix s) nsp plus vis v)
| CF_Dyn L io inner e nsp plus vis v :
    Closed L io e -> Closed inner true v -> ClosedField L io inner (MkIrField (IDyn e) nsp plus vis v)

with ClosedSpecs : list str -> bool -> list ir_spec -> list str -> Prop :=
| CS_Nil L io : ClosedSpecs L io [] L
| CS_For L io v e sp rest out :
    Closed L io e -> ClosedSpecs (v :: L) io rest out -> ClosedSpecs L io (ISFor v e sp :: rest) out
| CS_If L io e sp rest out :
    Closed L io e -> ClosedSpecs L io rest out -> ClosedSpecs L io (ISIf e sp :: rest) out.

(* ---- run-time environments (program/data.rs ThunkEnv / ThunkEnvData) and
   the lookups that assume analysis succeeded ---- *)
Inductive rt_env := RtEnv (parent : option rt_env) (rt_vars : list str) (rt_object : bool).

(* ThunkEnvData::new(parent): no variables, the object of the parent *)
Definition rt_new (parent : rt_env) : rt_env :=
  match parent with RtEnv _ _ o => RtEnv (Some parent) [] o end.
Definition rt_set_vars (ns : list str) (r : rt_env) : rt_env :=
  match r with RtEnv p vs o => RtEnv p (ns ++ vs) o end.
Definition rt_set_object (r : rt_env) : rt_env :=
  match r with RtEnv p vs _ => RtEnv p vs true end.
Definition rt_frame (ns : list str) (parent : rt_env) : rt_env := rt_set_vars ns (rt_new parent).

(* ThunkEnv::get_var: this frame, then the parents; panics when the name is nowhere *)
Fixpoint rt_get_var (name : str) (r : rt_env) : outcome unit unit :=
  match r with
  | RtEnv p vs _ =>
      if existsb (str_eqb name) vs then Ok tt
      else match p with
           | Some q => rt_get_var name q
           | None => Panic "data.rs:ThunkEnv::get_var:variable not found"
           end
  end.

(* ThunkEnv::get_object / get_top_object: [data.object.as_ref().unwrap()] *)
Definition rt_get_object (r : rt_env) : outcome unit unit :=
  match r with
  | RtEnv _ _ true => Ok tt
  | RtEnv _ _ false => Panic "data.rs:ThunkEnv::get_object:unwrap on None"
  end.

(* [walk r i]: visit EVERY sub-expression of [i] (a superset of what any
   evaluation reaches) in the environment the evaluator would build for it,
   performing the lookup each Var / self / $ / super performs.  This is the
   environment discipline of eval/mod.rs and data.rs (frames for Local, calls,
   object layers with their locals, comprehension variables), not the
   evaluator: values, laziness and errors are abstracted away. *)
Definition wlist {A : Type} (f : A -> outcome unit unit) : list A -> outcome unit unit :=
  fix go (l : list A) : outcome unit unit :=
    match l with [] => Ok tt | x :: t => do _ <- f x; go t end.
Definition wopt {A : Type} (f : A -> outcome unit unit) (o : option A) : outcome unit unit :=
  match o with None => Ok tt | Some x => f x end.

Section WithWalk.
  Variable w : rt_env -> ir -> outcome unit unit.
  Definition walk_assert (r : rt_env) (a : ir_assert) : outcome unit unit :=
    match a with MkIrAssert _ c _ m => do _ <- w r c; wopt (w r) m end.
  Definition walk_field (outer inner : rt_env) (f : ir_field) : outcome unit unit :=
    match f with
    | MkIrField (IFix _) _ _ _ v => w inner v
    | MkIrField (IDyn e) _ _ _ v => do _ <- w outer e; w inner v
    end.
  (* clauses, then the continuation in the environment they leave *)
  Definition walk_specs (k : rt_env -> outcome unit unit) : list ir_spec -> rt_env -> outcome unit unit :=
    fix go (cs : list ir_spec) (r : rt_env) : outcome unit unit :=
      match cs with
      | [] => k r
      | ISFor v e _ :: rest => do _ <- w r e; go rest (rt_frame [v] r)
      | ISIf e _ :: rest => do _ <- w r e; go rest r
      end.
End WithWalk.

Fixpoint walk (r : rt_env) (i : ir) {struct i} : outcome unit unit :=
  match i with
  | INull | IBool _ | INumber _ _ | IString _ | IIdentityFunc | IImport _ _ | IImportStr _ _
  | IImportBin _ _ | IOtherError _ => Ok tt
  | IObject _ locals asserts fields =>
      let inner := rt_set_object (rt_frame (map fst locals) r) in
      do _ <- wlist (fun l => walk inner (snd l)) locals;
      do _ <- wlist (walk_assert walk inner) asserts;
      wlist (walk_field walk r inner) fields
  | IObjectComp _ locals fname _ _ fval specs =>
      walk_specs walk (fun r' =>
        let inner := rt_set_object (rt_frame (map fst locals) r') in
        do _ <- wlist (fun l => walk inner (snd l)) locals;
        do _ <- walk r' fname;
        walk inner fval) specs r
  | IArray items => wlist (walk r) items
  | IArrayComp value specs => walk_specs walk (fun r' => walk r' value) specs r
  | IField o _ _ => walk r o
  | IIndex o x _ => do _ <- walk r o; walk r x
  | ISlice a x y z _ =>
      do _ <- walk r a; do _ <- wopt (walk r) x; do _ <- wopt (walk r) y; wopt (walk r) z
  | ISuperField _ _ _ => rt_get_object r
  | ISuperIndex _ x _ => do _ <- rt_get_object r; walk r x
  | ICall c pos named _ _ =>
      do _ <- walk r c; do _ <- wlist (walk r) pos; wlist (fun a => walk r (snd a)) named
  | IVar n _ => rt_get_var n r
  | ISelfObj => rt_get_object r
  | ITopObj => rt_get_object r
  | ILocal bs inner =>
      let r' := rt_frame (map fst bs) r in
      do _ <- wlist (fun b => walk r' (snd b)) bs; walk r' inner
  | IIf c _ t e => do _ <- walk r c; do _ <- walk r t; wopt (walk r) e
  | IBinary _ l x _ => do _ <- walk r l; walk r x
  | IUnary _ x _ => walk r x
  | IInSuper l _ => do _ <- rt_get_object r; walk r l
  | IFunc ps body =>
      let r' := rt_frame (map fst ps) r in
      do _ <- wlist (fun p => wopt (walk r') (snd p)) ps; walk r' body
  | IError m _ => walk r m
  | IAssert a inner => do _ <- walk_assert walk r a; walk r inner
  end.

(* ---- the spans a node carries itself (its own span, its super token, its
   identifier, the names of the binder groups and fields it introduces): used to
   say that a diagnostic is located at a node of the program ---- *)
Definition params_spans (ps : list param) : list span := map (fun p => id_span (param_ident p)) ps.
Definition bind_spans (b : bind) : list span :=
  match b with MkBind n ps _ => id_span n :: opt_list (fun q => params_spans (fst q)) ps end.
Definition fname_spans (n : field_name) : list span :=
  match n with FnIdent i => [id_span i] | FnString _ sp => [sp] | FnExpr _ sp => [sp] end.
Definition member_spans (m : member) : list span :=
  match m with
  | MLocal b => bind_spans b
  | MAssert _ => []
  | MField (FValue n _ _ _) => fname_spans n
  | MField (FFunc n ps _ _ _) => fname_spans n ++ params_spans ps
  end.
Definition obj_spans (o : obj_inside) : list span :=
  match o with
  | OMembers ms => flat member_spans ms
  | OComp l1 _ _ _ l2 _ => flat bind_spans (l1 ++ l2)
  end.
Definition node_spans (n : expr) : list span :=
  expr_span n ::
  match n with
  | ESuperField _ ssp _ | ESuperIndex _ ssp _ | EInSuper _ _ ssp => [ssp]
  | EIdent _ i => [id_span i]
  | ELocal _ bs _ => flat bind_spans bs
  | EObject _ o | EObjExt _ _ o _ => obj_spans o
  | EFunc _ ps _ => params_spans ps
  | _ => []
  end.
