(* Model/NumOps.v — every number-producing operator and builtin of rsjsonnet, as coded.

   Sources (rsjsonnet-lang/src):
     program/eval/expr.rs      do_binary_op  (+ - * / % << >> & | ^ on numbers)
     program/eval/mod.rs       State::UnaryOp (- + ~), safe_f64_to_i64, check_number_value,
                               State::CompareValue (partial_cmp().unwrap()), parse_num_radix
     program/eval/stdlib.rs    do_std_{sum,avg,pow,exp,log,log2,log10,sqrt,sin,cos,tan,asin,acos,
                               atan,atan2,hypot,floor,ceil,mod,modulo,mantissa,exponent,deg2rad,
                               rad2deg,length,codepoint,parse_int,parse_octal,parse_hex}
     program/std.libsonnet     abs sign max min clamp round  (Jsonnet source over > < + floor)
     float.rs                  frexp

   The finiteness gate ([check_number_value] / [is_finite]) is applied exactly where the
   source applies it: [gates] is a table op -> bool that the translator
   tools/translate_numgates.py regenerates from the source on every run (Gen/NumGates.v).
   libm functions (Rust std f64::powf/exp/ln/... = the platform libm) are the section
   variable [L] with no hypotheses.  No proofs here. *)
From Coq Require Import ZArith NArith Bool List Floats.SpecFloat.
From RJ Require Import Base.Outcome Base.F64 Model.Dec.
Local Open Scope Z_scope.
Local Open Scope outcome_scope.

Inductive numop :=
| OAdd | OSub | OMul | ODiv | ORem | OShl | OShr | OBitAnd | OBitOr | OBitXor
| ONeg | OPos | OBitNot
| BSum | BAvg | BPow | BExp | BLog | BLog2 | BLog10 | BSqrt
| BSin | BCos | BTan | BAsin | BAcos | BAtan | BAtan2 | BHypot
| BFloor | BCeil | BRound | BMod | BModulo
| BAbs | BSign | BMax | BMin | BClamp
| BMantissa | BExponent | BDeg2Rad | BRad2Deg
| BLength | BCodepoint | BParseInt | BParseOctal | BParseHex.

Inductive arg :=
| ANum (x : f64)            (* a number value *)
| AArr (l : list f64)       (* an array of number values *)
| AStr (s : list N)         (* a string, as code points *)
| ACount (n : N).           (* the element count std.length converts (usize) *)

Inductive err :=
| ENumberOverflow | ENumberNan | EDivByZero | EShiftByNegative | ENotBitwiseSafe
| EOther                    (* EvalErrorKind::Other { message } — wording not modelled *)
| EBadArgs.                 (* arity/type outside this model (never produced on generated cases) *)

Record libm_sig := {
  l_pow : f64 -> f64 -> f64;  l_exp : f64 -> f64;  l_ln : f64 -> f64;  l_log2 : f64 -> f64;
  l_log10 : f64 -> f64;  l_sin : f64 -> f64;  l_cos : f64 -> f64;  l_tan : f64 -> f64;
  l_asin : f64 -> f64;  l_acos : f64 -> f64;  l_atan : f64 -> f64;
  l_atan2 : f64 -> f64 -> f64;  l_hypot : f64 -> f64 -> f64
}.

Definition gates := numop -> bool.

(* ---------------------------------------------------------------- exact helpers *)

(* eval/mod.rs check_number_value *)
Definition check_number (x : f64) : outcome f64 err :=
  match x with
  | S754_nan => Err ENumberNan
  | S754_infinity _ => Err ENumberOverflow
  | _ => Ok x
  end.

(* the [is_finite] tests of parse_int / parse_num_radix report NumberOverflow for both *)
Definition check_finite_overflow (x : f64) : outcome f64 err :=
  if f_is_finite x then Ok x else Err ENumberOverflow.

(* a libm result is a double: bring whatever [L] answers to the double with that bit pattern *)
Definition f_canon (x : f64) : f64 := f_of_bits (f_to_bits x).

(* integer -> double with the sign of a zero result chosen *)
Definition f_of_Z_s (z : Z) (szero : bool) : f64 := binary_normalize prec emax z 0 szero.

Definition f_floor (x : f64) : f64 :=
  match x with
  | S754_finite s m e =>
      if 0 <=? e then x else
      let q := Z.pos m / 2 ^ (- e) in
      let r := Z.pos m mod 2 ^ (- e) in
      if s then f_of_Z_s (- (if r =? 0 then q else q + 1)) true else f_of_Z_s q false
  | _ => x
  end.

Definition f_ceil (x : f64) : f64 :=
  match x with
  | S754_finite s m e =>
      if 0 <=? e then x else
      let q := Z.pos m / 2 ^ (- e) in
      let r := Z.pos m mod 2 ^ (- e) in
      if s then f_of_Z_s (- q) true else f_of_Z_s (if r =? 0 then q else q + 1) false
  | _ => x
  end.

(* Rust's [%] on f64 = C fmod: exact, sign of the dividend *)
Definition f_rem (x y : f64) : f64 :=
  match x, y with
  | S754_nan, _ | _, S754_nan => S754_nan
  | S754_infinity _, _ => S754_nan
  | _, S754_zero _ => S754_nan
  | S754_zero _, _ => x
  | S754_finite _ _ _, S754_infinity _ => x
  | S754_finite sx mx ex, S754_finite _ my ey =>
      let e := Z.min ex ey in
      let X := Z.pos mx * 2 ^ (ex - e) in
      let Y := Z.pos my * 2 ^ (ey - e) in
      let R := X mod Y in
      binary_normalize prec emax (if sx then - R else R) e sx
  end.

(* float.rs frexp: (mantissa in [0.5,1), exponent); the bit manipulation read structurally.
   Non-finite inputs: what the masks produce (exponent field 0x7FF - 0x3FE = 1025). *)
Definition shl_pos (m : positive) (k : Z) : positive :=
  match k with Zpos p => shift_pos p m | _ => m end.

Definition f_frexp (x : f64) : f64 * Z :=
  match x with
  | S754_zero _ => (x, 0)
  | S754_finite s m e =>
      let d := Z.pos (digits2_pos m) in           (* d <= 53 on a double *)
      (S754_finite s (shl_pos m (53 - d)) (- Z.max d 53), e + d)
  | S754_infinity s => (S754_finite s (2 ^ 52) (-53), 1025)
  | S754_nan => (S754_finite false (3 * 2 ^ 51) (-53), 1025)  (* sign bit of a NaN not modelled *)
  end.

Definition f_mantissa (x : f64) : f64 := fst (f_frexp x).
Definition f_exponent (x : f64) : Z := snd (f_frexp x).

(* eval/mod.rs safe_f64_to_i64: [value < min || value > max] then [value as i64]
   (NaN passes both comparisons and converts to 0) *)
Definition f_max_safe : f64 := f_of_Z (2 ^ 53 - 1).
Definition safe_i64 (x : f64) : outcome Z err :=
  if f_ltb x (f_neg f_max_safe) || f_ltb f_max_safe x then Err ENotBitwiseSafe
  else Ok (match f_trunc_Z x with Some z => z | None => 0 end).

Definition wrap_i64 (z : Z) : Z :=
  let r := z mod 2 ^ 64 in if r <? 2 ^ 63 then r else r - 2 ^ 64.

(* [r as f64] for an i64 r: the operand is an i64 by typing (two's complement) *)
Definition f_of_i64 (z : Z) : f64 := f_of_Z (wrap_i64 z).

(* State::CompareValue on two numbers: partial_cmp().unwrap() *)
Definition cmp_num (a b : f64) : outcome comparison err :=
  match f_compare a b with
  | Some c => Ok c
  | None => Panic "eval/mod.rs:CompareValue:partial_cmp().unwrap() on NaN"
  end.
Definition gt_num a b : outcome bool err := do c <- cmp_num a b; Ok (match c with Gt => true | _ => false end).
Definition lt_num a b : outcome bool err := do c <- cmp_num a b; Ok (match c with Lt => true | _ => false end).

(* core f64::to_radians / to_degrees: x * (PI / 180), x * (180 / PI) *)
Definition f_pi : f64 := f_of_bits 4614256656552045848.       (* 0x400921FB54442D18 *)
Definition f_180 : f64 := f_of_Z 180.
Definition f_half : f64 := S754_finite false (2 ^ 52) (-53).

(* ---------------------------------------------------------------- strings *)

Definition radix_digit (radix c : N) : option N :=
  (if (48 <=? c) && (c <=? 57) then (if c - 48 <? radix then Some (c - 48) else None)
   else if (97 <=? c) && (c <=? 122) then (if c - 87 <? radix then Some (c - 87) else None)
   else if (65 <=? c) && (c <=? 90) then (if c - 55 <? radix then Some (c - 55) else None)
   else None)%N.

Fixpoint trim_zeros (s : list N) : list N :=
  match s with 48%N :: r => trim_zeros r | _ => s end.

Fixpoint radix_acc (radix : N) (s : list N) (acc : N) : outcome N err :=
  match s with
  | [] => Ok acc
  | c :: r => match radix_digit radix c with
              | Some d => radix_acc radix r (acc * radix + d)%N
              | None => Err EOther
              end
  end.

(* the digits after the exact window: all must be digits; count them, remember a non-zero one *)
Fixpoint radix_rest (radix : N) (s : list N) (cnt : nat) (sticky : bool) : outcome (nat * bool) err :=
  match s with
  | [] => Ok (cnt, sticky)
  | c :: r => match radix_digit radix c with
              | Some d => radix_rest radix r (S cnt) (sticky || negb (d =? 0)%N)
              | None => Err EOther
              end
  end.

Fixpoint radix_scale (k : nat) (radix : N) (x : f64) : f64 :=
  match k with O => x | S k' => radix_scale k' radix (f_mul x (f_of_N radix)) end.

(* eval/mod.rs parse_num_radix::<RADIX> (as of commits 554b196, 433f204: split by characters,
   sticky bit for the digits past the exact u128 window); [gated] = the final is_finite test *)
Definition parse_num_radix (gated : bool) (radix : N) (s : list N) : outcome f64 err :=
  match s with
  | [] => Err EOther
  | _ =>
      let s := trim_zeros s in
      let maxd := (if (radix =? 8)%N then 42 else 32)%nat in
      do n <- radix_acc radix (firstn maxd s) 0%N;
      do cs <- radix_rest radix (skipn maxd s) O false;
      let n' := if snd cs then N.lor n 1 else n in
      let x := radix_scale (fst cs) radix (f_of_N n') in       (* u128 as f64, then *= RADIX per extra digit *)
      if gated then check_finite_overflow x else Ok x
  end.

Fixpoint all_digits (s : list N) : bool :=
  match s with [] => true | c :: r => is_digit c && all_digits r end.
Fixpoint digits_val (s : list N) (acc : N) : N :=
  match s with [] => acc | c :: r => digits_val r (acc * 10 + digit_val c)%N end.

(* stdlib.rs do_std_parse_int: s.parse::<f64>() of -?D+ is dec_to_f64 (checked per case) *)
Definition parse_int (gated : bool) (s : list N) : outcome f64 err :=
  let '(neg, body) := match s with 45%N :: r => (true, r) | _ => (false, s) end in
  match body with
  | [] => Err EOther
  | _ => if all_digits body then
           let x := dec_to_f64_s neg (digits_val body 0%N) 0 in
           if gated then check_finite_overflow x else Ok x
         else Err EOther
  end.

(* ---------------------------------------------------------------- the operators *)

Section WithLibm.
Variable L : libm_sig.
Variable g : gates.

Definition gate (op : numop) (x : f64) : outcome f64 err := if g op then check_number x else Ok x.

Definition bitwise2 (f : Z -> Z -> Z) (a b : f64) : outcome f64 err :=
  do x <- safe_i64 a; do y <- safe_i64 b; Ok (f_of_i64 (f x y)).

Definition un_libm (op : numop) (f : f64 -> f64) (args : list arg) : outcome f64 err :=
  match args with [ANum x] => gate op (f_canon (f x)) | _ => Err EBadArgs end.
Definition bin_libm (op : numop) (f : f64 -> f64 -> f64) (args : list arg) : outcome f64 err :=
  match args with [ANum x; ANum y] => gate op (f_canon (f x y)) | _ => Err EBadArgs end.

Definition eval_numop (op : numop) (args : list arg) : outcome f64 err :=
  match op, args with
  (* expr.rs do_binary_op *)
  | OAdd, [ANum a; ANum b] => gate OAdd (f_add a b)
  | OSub, [ANum a; ANum b] => gate OSub (f_sub a b)
  | OMul, [ANum a; ANum b] => gate OMul (f_mul a b)
  | ODiv, [ANum a; ANum b] => if f_eqb b f_zero then Err EDivByZero else gate ODiv (f_div a b)
  | ORem, [ANum a; ANum b] => if f_eqb b f_zero then Err EDivByZero else gate ORem (f_rem a b)
  | OShl, [ANum a; ANum b] =>
      do l <- safe_i64 a;
      if f_sign b then Err EShiftByNegative else
      do r <- safe_i64 b;
      let sh := Z.land r 63 in
      let v := wrap_i64 (l * 2 ^ sh) in
      if negb (Z.shiftr v sh =? l) then Err ENotBitwiseSafe else Ok (f_of_i64 v)
  | OShr, [ANum a; ANum b] =>
      do l <- safe_i64 a;
      if f_sign b then Err EShiftByNegative else
      do r <- safe_i64 b;
      Ok (f_of_i64 (Z.shiftr l (Z.land r 63)))
  | OBitAnd, [ANum a; ANum b] => bitwise2 Z.land a b
  | OBitOr, [ANum a; ANum b] => bitwise2 Z.lor a b
  | OBitXor, [ANum a; ANum b] => bitwise2 Z.lxor a b
  (* mod.rs State::UnaryOp *)
  | ONeg, [ANum a] => Ok (f_neg a)
  | OPos, [ANum a] => Ok a
  | OBitNot, [ANum a] => do x <- safe_i64 a; Ok (f_of_i64 (Z.lnot x))
  (* stdlib.rs *)
  | BSum, [AArr l] => gate BSum (fold_left f_add l f_zero)
  | BAvg, [AArr l] =>
      match l with
      | [] => Err EOther
      | _ => gate BAvg (f_div (fold_left f_add l f_zero) (f_of_N (N.of_nat (length l))))
      end
  | BPow, _ => bin_libm BPow (l_pow L) args
  | BExp, _ => un_libm BExp (l_exp L) args
  | BLog, _ => un_libm BLog (l_ln L) args
  | BLog2, _ => un_libm BLog2 (l_log2 L) args
  | BLog10, _ => un_libm BLog10 (l_log10 L) args
  | BSqrt, [ANum a] => gate BSqrt (f_sqrt a)
  | BSin, _ => un_libm BSin (l_sin L) args
  | BCos, _ => un_libm BCos (l_cos L) args
  | BTan, _ => un_libm BTan (l_tan L) args
  | BAsin, _ => un_libm BAsin (l_asin L) args
  | BAcos, _ => un_libm BAcos (l_acos L) args
  | BAtan, _ => un_libm BAtan (l_atan L) args
  | BAtan2, _ => bin_libm BAtan2 (l_atan2 L) args
  | BHypot, _ => bin_libm BHypot (l_hypot L) args
  | BFloor, [ANum a] => gate BFloor (f_floor a)
  | BCeil, [ANum a] => gate BCeil (f_ceil a)
  | BMod, [ANum a; ANum b] => if f_eqb b f_zero then Err EDivByZero else gate BMod (f_rem a b)
  | BModulo, [ANum a; ANum b] => if f_eqb b f_zero then Err EDivByZero else gate BModulo (f_rem a b)
  | BMantissa, [ANum a] => gate BMantissa (f_mantissa a)
  | BExponent, [ANum a] => gate BExponent (f_of_i64 (f_exponent a))    (* i16 -> f64 *)
  | BDeg2Rad, [ANum a] => gate BDeg2Rad (f_mul a (f_div f_pi f_180))
  | BRad2Deg, [ANum a] => gate BRad2Deg (f_mul a (f_div f_180 f_pi))
  | BLength, [ACount n] => if (n <? 2 ^ 64)%N then gate BLength (f_of_N n) else Err EBadArgs
  | BCodepoint, [AStr s] =>
      match s with
      | [c] => if (c <? 1114112)%N then gate BCodepoint (f_of_N c) else Err EBadArgs
      | _ => Err EOther
      end
  | BParseInt, [AStr s] => parse_int (g BParseInt) s
  | BParseOctal, [AStr s] => parse_num_radix (g BParseOctal) 8 s
  | BParseHex, [AStr s] => parse_num_radix (g BParseHex) 16 s
  (* std.libsonnet (Jsonnet source; literals 0, 1, 0.5 and unary minus as coded) *)
  | BAbs, [ANum n] => do c <- gt_num n f_zero; Ok (if c then n else f_neg n)
  | BSign, [ANum n] =>
      do c <- gt_num n f_zero;
      if c then Ok f_one else
      do c2 <- lt_num n f_zero;
      if c2 then Ok (f_neg f_one) else Ok f_zero
  | BMax, [ANum a; ANum b] => do c <- gt_num a b; Ok (if c then a else b)
  | BMin, [ANum a; ANum b] => do c <- lt_num a b; Ok (if c then a else b)
  | BClamp, [ANum x; ANum lo; ANum hi] =>
      do c <- lt_num x lo;
      if c then Ok lo else
      do c2 <- gt_num x hi;
      Ok (if c2 then hi else x)
  | BRound, [ANum x] => do s <- gate OAdd (f_add x f_half); gate BFloor (f_floor s)
  | _, _ => Err EBadArgs
  end.

End WithLibm.

(* ---------------------------------------------------------------- helpers for the driver *)

Definition const_libm (r : f64) : libm_sig :=
  {| l_pow := fun _ _ => r; l_exp := fun _ => r; l_ln := fun _ => r; l_log2 := fun _ => r;
     l_log10 := fun _ => r; l_sin := fun _ => r; l_cos := fun _ => r; l_tan := fun _ => r;
     l_asin := fun _ => r; l_acos := fun _ => r; l_atan := fun _ => r;
     l_atan2 := fun _ _ => r; l_hypot := fun _ _ => r |}.

Definition uses_libm (op : numop) : bool :=
  match op with
  | BPow | BExp | BLog | BLog2 | BLog10 | BSin | BCos | BTan | BAsin | BAcos | BAtan | BAtan2 | BHypot => true
  | _ => false
  end.

(* the table of the pinned snapshot (commit 6d367d9): sum/avg and the exact integer-valued
   producers carry no gate.  Kept as the subject of [sum_finite_refuted]. *)
Definition gates_snapshot (op : numop) : bool :=
  match op with
  | OAdd | OSub | OMul | ODiv | ORem => true
  | BPow | BExp | BLog | BLog2 | BLog10 | BSqrt | BSin | BCos | BTan | BAsin | BAcos | BAtan | BAtan2
  | BHypot | BMod | BModulo | BDeg2Rad | BRad2Deg | BParseInt | BParseOctal | BParseHex => true
  | _ => false
  end.
