(* Model/Front.v — the composed front end: Program::load_source(ctx, input, with_stdlib = true, _)
   of rsjsonnet-lang/src/program/mod.rs, as written:

       let tokens    = lexer.lex_to_eof(false)?;          // Model/Lexer.v   lex_all false
       let root_expr = parser.parse_root_expr()?;         // Model/Parser.v  parse src_prec
       let thunk     = self.analyze(&root_expr, {std})?;  // Model/Analyze.v analyze e ["std"]

   Nothing is re-modelled here: the three component models are composed and
   their error types are injected into [front_error] (= LoadError's three
   variants, each carrying what the implementation reports).  The precedence
   table is the one translated from the current source (Gen/PrecTable.v); the
   parser's fuel is computed from the token count ([Parser.parse] =
   [parse_fuel] with [default_fuel 64]), the lexer's from the input length
   ([lex_all]).  Panic / OutOfFuel outcomes of a stage are passed through
   unchanged.  No proofs here. *)
From RJ Require Import Base.Outcome Model.Token Model.Ast Model.Ir Model.Lexer Model.Parser
  Model.Analyze Gen.PrecTable.
Local Open Scope N_scope.

(* pub enum LoadError { Lex(LexError), Parse(ParseError), Analyze(AnalyzeError) } *)
Inductive front_error :=
| FLex (e : lex_error)
| FParse (e : parse_error)
| FAnalyze (e : analyze_error).

(* change of error type, everything else passed through *)
Definition inj_err {A E F : Type} (f : E -> F) (o : outcome A E) : outcome A F :=
  match o with
  | Ok a => Ok a
  | Err e => Err (f e)
  | Panic site => Panic site
  | OutOfFuel => OutOfFuel
  end.

(* self.intern_str("std"): the only name in scope at the top level *)
Definition std_name : str := [115; 116; 100].
Definition top_scope : list str := [std_name].

(* lexer.lex_to_eof(false) *)
Definition front_lex (bytes : list N) : outcome (list token) front_error :=
  inj_err FLex (lex_all false bytes).

(* Parser::new(tokens).parse_root_expr(); the native recursion depth is dropped *)
Definition front_parse_tokens (toks : list token) : outcome expr front_error :=
  inj_err FParse (omap fst (parse src_prec toks)).

(* lexer + parser: the tokens and the syntax tree (what harness `front parse` dumps) *)
Definition front_parse (bytes : list N) : outcome (list token * expr) front_error :=
  obind (front_lex bytes) (fun toks =>
  obind (front_parse_tokens toks) (fun e => Ok (toks, e))).

(* Program::analyze(&root_expr, Some({std})) — the static half *)
Definition front_analyze (e : expr) : outcome ir front_error :=
  inj_err FAnalyze (analyze e top_scope).

(* Program::load_source(span_ctx, input, true, this_file) *)
Definition load_model (bytes : list N) : outcome ir front_error :=
  obind (front_parse bytes) (fun te => front_analyze (snd te)).

(* ---- what a diagnostic carries: every span of a front-end error ---- *)
Definition front_error_spans (x : front_error) : list span :=
  match x with
  | FLex e => [err_span e]
  | FParse e => [pe_span e]
  | FAnalyze e => error_spans e
  end.
