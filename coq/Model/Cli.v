(* Model/Cli.v — executable model of the command-line glue of rsjsonnet:
   rsjsonnet/src/main.rs (main, main_inner, ext_*_to_thunk, get_opt_val,
   value_to_repr) and the two hand-written argument parsers of
   rsjsonnet/src/cli.rs (VarOptVal::from, VarFile::from_str), branch by branch,
   plus the zero-positional instance of check_call_args_generic
   (rsjsonnet-lang/src/program/eval/call.rs) through which top-level arguments
   are bound.

   [run : config -> world -> result].
   * [config] is what clap hands to main_inner (struct Cli).  [raw_config] keeps
     the var[=val] / var=file arguments unparsed; [parse_config] applies the
     project's own two parsers.
   * [world] is the trusted description of everything outside the glue: clap's
     verdict on the argument vector, stdin, the environment, the file system
     (reads and write targets), the Session oracles (load / eval / call /
     manifest, each "success with an answer" or "failure, reported on stderr"),
     and the standard-output device behind Rust's line-buffered Stdout.
   * [result] = (exit status, bytes that reached stdout, "something was written
     to stderr", the sequence of fs::write effects).

   All text is bytes ([list N], every element < 256): the glue never looks
   inside UTF-8 sequences (the only byte it searches for is '=' and '\n').

   Assumed std behaviour (part of the world, see notes/C12.md):
   - Stdout is LineWriter<StdoutRaw> with an initially empty buffer of capacity
     [w_bufcap] (1024): write_all sends everything up to the last '\n' straight
     to the descriptor, keeps the tail in the buffer when it is shorter than the
     capacity and writes it through otherwise; the buffer is flushed by the
     runtime's exit hook with the error ignored;
   - a write to a closed descriptor 1 (EBADF) is reported as success by
     StdoutRaw;
   - fs::write = create/truncate, then write_all; write_all of an empty slice
     performs no write(2);
   - a device with [limit = Some n] accepts n more bytes and then fails every
     write (n = 0: /dev/full; n > 0: RLIMIT_FSIZE with SIGXFSZ ignored).
   No proofs in this file. *)
From RJ Require Import Base.Outcome.
Local Open Scope N_scope.

Definition bytes := list N.

Fixpoint bytes_eqb (a b : bytes) : bool :=
  match a, b with
  | [], [] => true
  | x :: a', y :: b' => if x =? y then bytes_eqb a' b' else false
  | _, _ => false
  end.

Fixpoint mem_bytes (x : bytes) (l : list bytes) : bool :=
  match l with
  | [] => false
  | y :: r => if bytes_eqb x y then true else mem_bytes x r
  end.

(* byte-string literals used by the glue *)
Definition NL : N := 10.
Definition EQ : N := 61.
Definition SLASH : N := 47.
Definition s_dashes : bytes := [45; 45; 45; 10].            (* "---\n" *)
Definition s_dots : bytes := [46; 46; 46].                  (* "..." *)
Definition s_cmdline : bytes := [60; 99; 109; 100; 108; 105; 110; 101; 62].   (* "<cmdline>" *)
Definition s_stdin : bytes := [60; 115; 116; 100; 105; 110; 62].             (* "<stdin>" *)
Definition lit_ext : bytes := [101; 120; 116].                (* "ext" *)
Definition lit_tla : bytes := [116; 108; 97].                 (* "tla" *)
Definition s_minus : bytes := [45].                         (* "-" *)

(* ------------------------------------------------------------------ cli.rs *)

Record var_opt_val := { vo_var : bytes; vo_val : option bytes }.
Record var_file := { vf_var : bytes; vf_file : bytes }.

(* str::split_once('=') *)
Fixpoint split_once_eq (s : bytes) : option (bytes * bytes) :=
  match s with
  | [] => None
  | ch :: r =>
      if ch =? EQ then Some ([], r)
      else match split_once_eq r with
           | Some (k, v) => Some (ch :: k, v)
           | None => None
           end
  end.

(* impl From<&str> for VarOptVal *)
Definition parse_var_opt_val (s : bytes) : var_opt_val :=
  match split_once_eq s with
  | Some (k, v) => {| vo_var := k; vo_val := Some v |}
  | None => {| vo_var := s; vo_val := None |}
  end.

(* impl FromStr for VarFile: Err("argument not in form 'var=file'") becomes a clap error *)
Definition parse_var_file (s : bytes) : option var_file :=
  match split_once_eq s with
  | Some (k, p) => Some {| vf_var := k; vf_file := p |}
  | None => None
  end.

(* struct Cli, field for field *)
Record config := {
  c_input : bytes;
  c_exec : bool;
  c_jpath : list bytes;
  c_output : option bytes;
  c_multi : option bytes;
  c_yaml : bool;
  c_string : bool;
  c_ntn : bool;                      (* --no-trailing-newline *)
  c_max_stack : option N;
  c_max_trace : option N;
  c_ext_str : list var_opt_val;
  c_ext_str_file : list var_file;
  c_ext_code : list var_opt_val;
  c_ext_code_file : list var_file;
  c_tla_str : list var_opt_val;
  c_tla_str_file : list var_file;
  c_tla_code : list var_opt_val;
  c_tla_code_file : list var_file
}.

(* the same with the var arguments as typed *)
Record raw_config := {
  rc_input : bytes;
  rc_exec : bool;
  rc_jpath : list bytes;
  rc_output : option bytes;
  rc_multi : option bytes;
  rc_yaml : bool;
  rc_string : bool;
  rc_ntn : bool;
  rc_max_stack : option N;
  rc_max_trace : option N;
  rc_ext_str : list bytes;
  rc_ext_str_file : list bytes;
  rc_ext_code : list bytes;
  rc_ext_code_file : list bytes;
  rc_tla_str : list bytes;
  rc_tla_str_file : list bytes;
  rc_tla_code : list bytes;
  rc_tla_code_file : list bytes
}.

Fixpoint parse_var_files (l : list bytes) : option (list var_file) :=
  match l with
  | [] => Some []
  | s :: r =>
      match parse_var_file s with
      | None => None
      | Some vf => match parse_var_files r with
                   | None => None
                   | Some vfs => Some (vf :: vfs)
                   end
      end
  end.

Definition parse_config (rc : raw_config) : option config :=
  match parse_var_files (rc_ext_str_file rc), parse_var_files (rc_ext_code_file rc),
        parse_var_files (rc_tla_str_file rc), parse_var_files (rc_tla_code_file rc) with
  | Some esf, Some ecf, Some tsf, Some tcf =>
      Some {| c_input := rc_input rc; c_exec := rc_exec rc; c_jpath := rc_jpath rc;
              c_output := rc_output rc; c_multi := rc_multi rc; c_yaml := rc_yaml rc;
              c_string := rc_string rc; c_ntn := rc_ntn rc;
              c_max_stack := rc_max_stack rc; c_max_trace := rc_max_trace rc;
              c_ext_str := map parse_var_opt_val (rc_ext_str rc);
              c_ext_str_file := esf;
              c_ext_code := map parse_var_opt_val (rc_ext_code rc);
              c_ext_code_file := ecf;
              c_tla_str := map parse_var_opt_val (rc_tla_str rc);
              c_tla_str_file := tsf;
              c_tla_code := map parse_var_opt_val (rc_tla_code rc);
              c_tla_code_file := tcf |}
  | _, _, _, _ => None
  end.

(* ------------------------------------------------------------------ world *)

Inductive env_answer := EnvUnset | EnvNotUnicode | EnvVal (v : bytes).
Inductive read_answer := ReadFail | ReadNotUtf8 | ReadOk (v : bytes).

(* a Thunk handed to the program: a string constant made by the glue, or the
   root thunk of a loaded source (identified by the loader's answer) *)
Inductive thunk := ThStr (s : bytes) | ThLoaded (id : N).

Definition vid := N.     (* an evaluated Value, named by the oracle *)

(* what Value::{is_function, to_string, to_array, to_object} report; for a
   function, its parameter list (name, has a default) *)
Inductive shape :=
| ShFunc (params : list (bytes * bool))
| ShStr (s : bytes)
| ShArr (items : list vid)
| ShObj (fields : list (bytes * vid))      (* non-hidden fields, in get_fields_order order *)
| ShOther.

(* how eval_call binds each parameter *)
Inductive binding := BArg (t : thunk) | BDefault.

(* the Session as configured by the glue when an oracle is consulted *)
Record session := {
  s_max_stack : option N;
  s_max_trace : option N;
  s_colored : bool;
  s_jpath : list bytes;                    (* in add_search_path order *)
  s_ext : list (bytes * thunk)             (* add_ext_var calls, in order *)
}.

(* a place bytes are written to: [limit] = how many more bytes it accepts *)
Inductive target := TNoCreate | TDev (limit : option N).
Inductive stdout_dev := SoClosed | SoDev (limit : option N).

Record world := {
  w_clap_ok : bool;                                   (* clap accepted the argument vector *)
  w_colored : bool;                                   (* NO_COLOR unset or empty *)
  w_stdin : option bytes;                             (* read_to_end *)
  w_env : bytes -> env_answer;                        (* env::var_os + into_string *)
  w_read : bytes -> read_answer;                      (* fs::read + String::from_utf8 *)
  w_load_virt : bytes -> bytes -> option N;           (* Session::load_virt_file repr_path data *)
  w_load_real : bytes -> option N;                    (* Session::load_real_file path *)
  w_eval : session -> thunk -> option vid;            (* Session::eval_value *)
  w_shape : vid -> shape;
  w_call : session -> vid -> list binding -> option vid;   (* body of the call once parameters are bound *)
  w_manifest : session -> vid -> option bytes;        (* Session::manifest_json(value, true) *)
  w_target : bytes -> target;                         (* fs::write destination *)
  w_stdout : stdout_dev;
  w_bufcap : N                                        (* LineWriter capacity of std's Stdout: 1024 *)
}.

(* ------------------------------------------------------------------ result *)

Inductive fs_effect :=
| FsNotCreated                               (* File::create failed: nothing changed *)
| FsWrote (accepted : bytes) (ok : bool).    (* created/truncated; these bytes got in; write_all's verdict *)

Record result := {
  r_exit : N;
  r_stdout : bytes;
  r_stderr : bool;
  r_files : list (bytes * fs_effect)
}.

(* ------------------------------------------------------------------ devices *)

Fixpoint take (n : nat) (l : bytes) : bytes :=
  match n, l with
  | O, _ => []
  | S k, x :: r => x :: take k r
  | S _, [] => []
  end.

Definition blen (l : bytes) : N := N.of_nat (length l).

(* write_all on a raw descriptor: (accepted bytes, success, remaining limit).
   An empty slice performs no write. *)
Definition dev_write (limit : option N) (data : bytes) : bytes * bool * option N :=
  match data with
  | [] => ([], true, limit)
  | _ =>
      match limit with
      | None => (data, true, None)
      | Some n =>
          if blen data <=? n then (data, true, Some (n - blen data))
          else (take (N.to_nat n) data, false, Some 0)
      end
  end.

(* std::fs::write(path, data) *)
Definition fs_write (w : world) (path data : bytes) : fs_effect :=
  match w_target w path with
  | TNoCreate => FsNotCreated
  | TDev limit => let '(acc, ok, _) := dev_write limit data in FsWrote acc ok
  end.

Definition fs_ok (e : fs_effect) : bool :=
  match e with FsWrote _ true => true | _ => false end.

(* the Stdout handle: bytes that reached the descriptor, LineWriter buffer, device *)
Record so_state := { so_out : bytes; so_buf : bytes; so_dev : stdout_dev }.

(* StdoutRaw::write_all (handle_ebadf: a closed descriptor swallows the data and reports success) *)
Definition so_raw_write (st : so_state) (data : bytes) : bool * so_state :=
  match so_dev st with
  | SoClosed => (true, st)
  | SoDev limit =>
      let '(acc, ok, limit') := dev_write limit data in
      (ok, {| so_out := so_out st ++ acc; so_buf := so_buf st; so_dev := SoDev limit' |})
  end.

(* position just after the last '\n' *)
Fixpoint split_last_nl (s : bytes) : option (bytes * bytes) :=
  match s with
  | [] => None
  | ch :: r =>
      match split_last_nl r with
      | Some (lines, tail) => Some (ch :: lines, tail)
      | None => if ch =? NL then Some ([ch], r) else None
      end
  end.

(* BufWriter::write_all on an EMPTY buffer of capacity cap: shorter than the
   capacity -> buffered; otherwise written through *)
Definition so_buf_write (cap : N) (st : so_state) (data : bytes) : bool * so_state :=
  if blen data <? cap
  then (true, {| so_out := so_out st; so_buf := so_buf st ++ data; so_dev := so_dev st |})
  else so_raw_write st data.

(* LineWriterShim::write_all, first (and only) write of the process: the buffer is empty *)
Definition so_write_all (cap : N) (st : so_state) (data : bytes) : bool * so_state :=
  match split_last_nl data with
  | None => so_buf_write cap st data
  | Some (lines, tail) =>
      let '(ok, st1) := so_raw_write st lines in
      if ok then so_buf_write cap st1 tail else (false, st1)
  end.

(* BufWriter::flush_buf: whatever the device accepts leaves the buffer *)
Definition so_flush (st : so_state) : bool * so_state :=
  let '(ok, st1) := so_raw_write st (so_buf st) in
  (ok, {| so_out := so_out st1; so_buf := []; so_dev := so_dev st1 |}).

(* the runtime's exit hook: flush, error ignored *)
Definition so_at_exit (st : so_state) : bytes := so_out (snd (so_flush st)).

(* ------------------------------------------------------------------ main.rs *)

Definition usage_result : result :=
  {| r_exit := 2; r_stdout := []; r_stderr := true; r_files := [] |}.

(* the release profile sets panic = "abort": a panic ends the process with SIGABRT *)
Definition panic_result : result :=
  {| r_exit := 134; r_stdout := []; r_stderr := true; r_files := [] |}.

Definition fail_result (files : list (bytes * fs_effect)) : result :=
  {| r_exit := 1; r_stdout := []; r_stderr := true; r_files := files |}.

(* fn get_opt_val *)
Definition get_opt_val (w : world) (a : var_opt_val) : option bytes :=
  match vo_val a with
  | Some v => Some v
  | None => match w_env w (vo_var a) with
            | EnvVal v => Some v
            | EnvNotUnicode => None
            | EnvUnset => None
            end
  end.

(* fn ext_str_to_thunk *)
Definition ext_str_to_thunk (w : world) (a : var_opt_val) : option thunk :=
  match get_opt_val w a with
  | Some v => Some (ThStr v)
  | None => None
  end.

(* fn ext_str_file_to_thunk *)
Definition ext_str_file_to_thunk (w : world) (a : var_file) : option thunk :=
  match w_read w (vf_file a) with
  | ReadOk v => Some (ThStr v)
  | ReadNotUtf8 => None
  | ReadFail => None
  end.

(* fn ext_code_to_thunk: virtual path "<prefix:var>" *)
Definition virt_path (prefix var : bytes) : bytes := [60] ++ prefix ++ [58] ++ var ++ [62].

Definition ext_code_to_thunk (w : world) (prefix : bytes) (a : var_opt_val) : option thunk :=
  match get_opt_val w a with
  | None => None
  | Some code => match w_load_virt w (virt_path prefix (vo_var a)) code with
                 | Some id => Some (ThLoaded id)
                 | None => None
                 end
  end.

(* fn ext_code_file_to_thunk *)
Definition ext_code_file_to_thunk (w : world) (a : var_file) : option thunk :=
  match w_load_real w (vf_file a) with
  | Some id => Some (ThLoaded id)
  | None => None
  end.

(* the four "for arg in args.ext_*" loops: a name seen before aborts the run *)
Fixpoint ext_loop {A : Type} (name : A -> bytes) (mk : A -> option thunk) (l : list A)
         (names : list bytes) (ext : list (bytes * thunk))
  : option (list bytes * list (bytes * thunk)) :=
  match l with
  | [] => Some (names, ext)
  | a :: r =>
      if mem_bytes (name a) names then None
      else match mk a with
           | None => None
           | Some t => ext_loop name mk r (name a :: names) (ext ++ [(name a, t)])
           end
  end.

Definition all_ext (c : config) (w : world) : option (list (bytes * thunk)) :=
  match ext_loop vo_var (ext_str_to_thunk w) (c_ext_str c) [] [] with
  | None => None
  | Some (n1, e1) =>
  match ext_loop vf_var (ext_str_file_to_thunk w) (c_ext_str_file c) n1 e1 with
  | None => None
  | Some (n2, e2) =>
  match ext_loop vo_var (ext_code_to_thunk w lit_ext) (c_ext_code c) n2 e2 with
  | None => None
  | Some (n3, e3) =>
  match ext_loop vf_var (ext_code_file_to_thunk w) (c_ext_code_file c) n3 e3 with
  | None => None
  | Some (_, e4) => Some e4
  end end end end.

(* the four "for arg in args.tla_*" loops: a repeated name is reported but the
   run goes on (third component: something was printed) *)
Fixpoint tla_loop {A : Type} (name : A -> bytes) (mk : A -> option thunk) (l : list A)
         (names : list bytes) (tla : list (bytes * thunk)) (warned : bool)
  : option (list bytes * list (bytes * thunk) * bool) :=
  match l with
  | [] => Some (names, tla, warned)
  | a :: r =>
      let dup := mem_bytes (name a) names in
      match mk a with
      | None => None
      | Some t => tla_loop name mk r (if dup then names else name a :: names)
                           (tla ++ [(name a, t)]) (warned || dup)
      end
  end.

Definition all_tla (c : config) (w : world) : option (list (bytes * thunk) * bool) :=
  match tla_loop vo_var (ext_str_to_thunk w) (c_tla_str c) [] [] false with
  | None => None
  | Some (n1, t1, w1) =>
  match tla_loop vf_var (ext_str_file_to_thunk w) (c_tla_str_file c) n1 t1 w1 with
  | None => None
  | Some (n2, t2, w2) =>
  match tla_loop vo_var (ext_code_to_thunk w lit_tla) (c_tla_code c) n2 t2 w2 with
  | None => None
  | Some (n3, t3, w3) =>
  match tla_loop vf_var (ext_code_file_to_thunk w) (c_tla_code_file c) n3 t3 w3 with
  | None => None
  | Some (_, t4, w4) => Some (t4, w4)
  end end end end.

(* ---- call.rs check_call_args_generic with no positional argument ---- *)

Inductive bind_error := UnknownCallParam | RepeatedCallParam | CallParamNotBound.

Fixpoint param_index (name : bytes) (params : list (bytes * bool)) : option nat :=
  match params with
  | [] => None
  | (p, _) :: r => if bytes_eqb name p then Some O
                   else match param_index name r with
                        | Some i => Some (S i)
                        | None => None
                        end
  end.

(* set slot i; None when it is already taken *)
Fixpoint set_slot (i : nat) (t : thunk) (slots : list (option thunk)) : option (list (option thunk)) :=
  match slots, i with
  | [], _ => None
  | Some _ :: _, O => None
  | None :: r, O => Some (Some t :: r)
  | s :: r, S k => match set_slot k t r with
                   | Some r' => Some (s :: r')
                   | None => None
                   end
  end.

Fixpoint place_named (params : list (bytes * bool)) (named : list (bytes * thunk))
         (slots : list (option thunk)) : outcome (list (option thunk)) bind_error :=
  match named with
  | [] => Ok slots
  | (n, t) :: r =>
      match param_index n params with
      | None => Err UnknownCallParam
      | Some i => match set_slot i t slots with
                  | None => Err RepeatedCallParam
                  | Some slots' => place_named params r slots'
                  end
      end
  end.

Fixpoint fill_defaults (params : list (bytes * bool)) (slots : list (option thunk))
  : outcome (list binding) bind_error :=
  match params, slots with
  | [], _ => Ok []
  | (_, has_default) :: pr, s :: sr =>
      match s with
      | Some t => match fill_defaults pr sr with
                  | Ok bs => Ok (BArg t :: bs)
                  | Err e => Err e
                  | Panic m => Panic m
                  | OutOfFuel => OutOfFuel
                  end
      | None => if has_default
                then match fill_defaults pr sr with
                     | Ok bs => Ok (BDefault :: bs)
                     | Err e => Err e
                     | Panic m => Panic m
                     | OutOfFuel => OutOfFuel
                     end
                else Err CallParamNotBound
      end
  | _ :: _, [] => Panic "call.rs:check_call_args_generic:named_args_tmp shorter than params"
  end.

Definition bind_tla (params : list (bytes * bool)) (named : list (bytes * thunk))
  : outcome (list binding) bind_error :=
  match place_named params named (map (fun _ => None) params) with
  | Ok slots => fill_defaults params slots
  | Err e => Err e
  | Panic m => Panic m
  | OutOfFuel => OutOfFuel
  end.

(* ---- input, session, root value ---- *)

Inductive prep :=
| PUsage
| PFail
| PPanic (site : string)
| POk (s : session) (v : vid) (warned : bool).

Definition mk_session (c : config) (w : world) (ext : list (bytes * thunk)) : session :=
  {| s_max_stack := c_max_stack c; s_max_trace := c_max_trace c; s_colored := w_colored w;
     s_jpath := rev (c_jpath c); s_ext := ext |}.

(* load the input: -e code, "-" = stdin, otherwise a file *)
Definition load_input (c : config) (w : world) : option N :=
  if c_exec c then w_load_virt w s_cmdline (c_input c)
  else if bytes_eqb (c_input c) s_minus then
    match w_stdin w with
    | Some data => w_load_virt w s_stdin data
    | None => None
    end
  else w_load_real w (c_input c).

(* main_inner up to the point where the value to print is known *)
Definition prepare (c : config) (w : world) : prep :=
  if negb (w_clap_ok w) then PUsage
  else if c_string c && c_yaml c then PUsage
  else
    match load_input c w with
    | None => PFail
    | Some root =>
    match all_ext c w with
    | None => PFail
    | Some ext =>
    match all_tla c w with
    | None => PFail
    | Some (tla, warned) =>
        let s := mk_session c w ext in
        match w_eval w s (ThLoaded root) with
        | None => PFail
        | Some v0 =>
            match w_shape w v0 with
            | ShFunc params =>
                match bind_tla params tla with
                | Ok bs => match w_call w s v0 bs with
                           | Some v1 => POk s v1 warned
                           | None => PFail
                           end
                | Err _ => PFail
                | Panic site => PPanic site
                | OutOfFuel => PPanic "unreachable: no fuel is used"
                end
            | _ =>
                match tla with
                | [] => POk s v0 warned
                | _ :: _ => PFail
                end
            end
        end
    end end end.

(* ---- fn value_to_repr ---- *)

Definition nl_unless_ntn (c : config) : bytes := if c_ntn c then [] else [NL].

Fixpoint manifest_items (w : world) (s : session) (items : list vid) : option (list bytes) :=
  match items with
  | [] => Some []
  | v :: r =>
      match w_manifest w s v with
      | None => None
      | Some t => match manifest_items w s r with
                  | Some ts => Some (t :: ts)
                  | None => None
                  end
      end
  end.

Fixpoint yaml_docs (texts : list bytes) : bytes :=
  match texts with
  | [] => []
  | t :: r => s_dashes ++ t ++ [NL] ++ yaml_docs r
  end.

Definition value_to_repr (c : config) (w : world) (s : session) (v : vid) : option bytes :=
  if c_string c then
    match w_shape w v with
    | ShStr str => Some (str ++ nl_unless_ntn c)
    | _ => None
    end
  else if c_yaml c then
    match w_shape w v with
    | ShArr items =>
        match manifest_items w s items with
        | None => None
        | Some [] => Some []
        | Some texts => Some (yaml_docs texts ++ s_dots ++ nl_unless_ntn c)
        end
    | _ => None
    end
  else
    match w_manifest w s v with
    | Some t => Some (t ++ nl_unless_ntn c)
    | None => None
    end.

(* ---- multi mode ---- *)

(* Path::join (unix): an absolute component replaces the base; a separator is
   added unless the base is empty or already ends with one *)
Definition path_join (dir name : bytes) : bytes :=
  match name with
  | 47 :: _ => name
  | _ => match dir with
         | [] => name
         | _ => if last dir 0 =? SLASH then dir ++ name else dir ++ [SLASH] ++ name
         end
  end.

(* the "for (field_name, field_value) in fields" loop.  Returns the path list
   (None when the run is abandoned) and the fs::write effects so far *)
Fixpoint multi_loop (c : config) (w : world) (s : session) (dir : bytes)
         (fields : list (bytes * vid)) (path_list : bytes) (files : list (bytes * fs_effect))
  : option bytes * list (bytes * fs_effect) :=
  match fields with
  | [] => (Some path_list, files)
  | (name, v) :: r =>
      match value_to_repr c w s v with
      | None => (None, files)
      | Some repr =>
          let path := path_join dir name in
          let eff := fs_write w path repr in
          let files' := files ++ [(path, eff)] in
          if fs_ok eff then multi_loop c w s dir r (path_list ++ path ++ [NL]) files'
          else (None, files')
      end
  end.

(* "let output = ..." : the complete output string, built before any of it is written *)
Inductive computed :=
| CUsage
| CPanic (site : string)
| CFail (files : list (bytes * fs_effect))
| CReady (out : bytes) (files : list (bytes * fs_effect)) (warned : bool).

Definition compute (c : config) (w : world) : computed :=
  match prepare c w with
  | PUsage => CUsage
  | PPanic site => CPanic site
  | PFail => CFail []
  | POk s v warned =>
      match c_multi c with
      | Some dir =>
          match w_shape w v with
          | ShObj fields =>
              match multi_loop c w s dir fields [] [] with
              | (Some path_list, files) => CReady path_list files warned
              | (None, files) => CFail files
              end
          | _ => CFail []
          end
      | None =>
          match value_to_repr c w s v with
          | Some out => CReady out [] warned
          | None => CFail []
          end
      end
  end.

(* ---- writing the output ---- *)

(* [flush]: does the code flush Stdout (and check the result) after write_all?
   main.rs does since the fix: commit; the code as first written did not *)
Definition emit_gen (flush : bool) (c : config) (w : world) (cm : computed) : result :=
  match cm with
  | CUsage => usage_result
  | CPanic _ => panic_result
  | CFail files => fail_result files
  | CReady out files warned =>
      match c_output c with
      | Some path =>
          let eff := fs_write w path out in
          let files' := files ++ [(path, eff)] in
          if fs_ok eff
          then {| r_exit := 0; r_stdout := []; r_stderr := warned; r_files := files' |}
          else fail_result files'
      | None =>
          let st0 := {| so_out := []; so_buf := []; so_dev := w_stdout w |} in
          let '(ok, st1) := so_write_all (w_bufcap w) st0 out in
          if ok then
            if flush then
              let '(ok2, st2) := so_flush st1 in
              if ok2
              then {| r_exit := 0; r_stdout := so_at_exit st2; r_stderr := warned; r_files := files |}
              else {| r_exit := 1; r_stdout := so_at_exit st2; r_stderr := true; r_files := files |}
            else {| r_exit := 0; r_stdout := so_at_exit st1; r_stderr := warned; r_files := files |}
          else {| r_exit := 1; r_stdout := so_at_exit st1; r_stderr := true; r_files := files |}
      end
  end.

(* main.rs as it stands (since the fix: commit "flush stdout and report a failed
   write of the final unterminated line"): write_all, then flush, both checked *)
Definition CODE_FLUSHES : bool := true.

Definition emit := emit_gen CODE_FLUSHES.
Definition run_gen (flush : bool) (c : config) (w : world) : result := emit_gen flush c w (compute c w).
Definition run (c : config) (w : world) : result := run_gen CODE_FLUSHES c w.

(* from the argument vector as typed: a var=file argument without '=' is a
   clap value-parser error *)
Definition run_raw (rc : raw_config) (w : world) : result :=
  match parse_config rc with
  | None => usage_result
  | Some c => run c w
  end.

(* ------------------------------------------------------------------ table worlds
   (the form in which the correspondence check supplies a world) *)

Definition thunk_eqb (a b : thunk) : bool :=
  match a, b with
  | ThStr x, ThStr y => bytes_eqb x y
  | ThLoaded x, ThLoaded y => x =? y
  | _, _ => false
  end.

Definition binding_eqb (a b : binding) : bool :=
  match a, b with
  | BArg x, BArg y => thunk_eqb x y
  | BDefault, BDefault => true
  | _, _ => false
  end.

Fixpoint bindings_eqb (a b : list binding) : bool :=
  match a, b with
  | [], [] => true
  | x :: a', y :: b' => binding_eqb x y && bindings_eqb a' b'
  | _, _ => false
  end.

Fixpoint assoc {A B : Type} (eqb : A -> A -> bool) (k : A) (l : list (A * B)) (d : B) : B :=
  match l with
  | [] => d
  | (k', v) :: r => if eqb k k' then v else assoc eqb k r d
  end.

Record wtab := {
  t_clap_ok : bool;
  t_colored : bool;
  t_stdin : option bytes;
  t_env : list (bytes * env_answer);
  t_read : list (bytes * read_answer);
  t_load_virt : list ((bytes * bytes) * option N);
  t_load_real : list (bytes * option N);
  t_eval : list (thunk * option vid);
  t_shape : list (vid * shape);
  t_call : list ((vid * list binding) * option vid);
  t_manifest : list (vid * option bytes);
  t_target : list (bytes * target);
  t_stdout : stdout_dev;
  t_bufcap : N
}.

Definition world_of_tables (t : wtab) : world :=
  {| w_clap_ok := t_clap_ok t;
     w_colored := t_colored t;
     w_stdin := t_stdin t;
     w_env := fun k => assoc bytes_eqb k (t_env t) EnvUnset;
     w_read := fun k => assoc bytes_eqb k (t_read t) ReadFail;
     w_load_virt := fun p d =>
       assoc (fun a b => bytes_eqb (fst a) (fst b) && bytes_eqb (snd a) (snd b)) (p, d) (t_load_virt t) None;
     w_load_real := fun p => assoc bytes_eqb p (t_load_real t) None;
     w_eval := fun _ th => assoc thunk_eqb th (t_eval t) None;
     w_shape := fun v => assoc N.eqb v (t_shape t) ShOther;
     w_call := fun _ v bs =>
       assoc (fun a b => (fst a =? fst b) && bindings_eqb (snd a) (snd b)) (v, bs) (t_call t) None;
     w_manifest := fun _ v => assoc N.eqb v (t_manifest t) None;
     w_target := fun p => assoc bytes_eqb p (t_target t) TNoCreate;
     w_stdout := t_stdout t;
     w_bufcap := t_bufcap t |}.

Definition run_tab (rc : raw_config) (t : wtab) : result := run_raw rc (world_of_tables t).
Definition run_gen_tab (flush : bool) (rc : raw_config) (t : wtab) : result :=
  match parse_config rc with
  | None => usage_result
  | Some c => run_gen flush c (world_of_tables t)
  end.
