(* comp_jsonesc.ml — glue for the escaper component.
   fields: op, string (code points)
     esc   s -> <hand-model escaped> TAB <table escaped> TAB <D<decoded>|E>   (decoded by JsonDec.lex_string, rest must be empty)
     toml  s -> escape_key_toml s  TAB  <0|1 plain by hand model> TAB <0|1 plain by translated table>
     yaml  s -> <0|1 is_safe_yaml_plain (hand)> TAB <0|1 with translated word list> TAB <0|1 char class agrees>
                TAB <0|1 YAML 1.2 core schema resolves the plain scalar to a non-string> *)
open Model
open Wire

let b2s b = if b then "1" else "0"

let handle (fields : ostring list) : ostring =
  match fields with
  | [op; s] ->
      let s = list_n_of s in
      (match op with
       | "esc" ->
           let e = escape_string_json s in
           let tbl = (n_of_int 34) :: (List.concat_map (table_escape esc_arms esc_default) s) @ [n_of_int 34] in
           let d = match lex_string e with
             | Some (cs, []) -> "D" ^ of_list_n cs
             | Some (_, _ :: _) -> "E:rest"
             | None -> "E" in
           of_list_n e ^ "\t" ^ of_list_n tbl ^ "\t" ^ d
       | "toml" ->
           of_list_n (escape_key_toml s) ^ "\t" ^ b2s (is_safe_toml_plain_gen (n_of_int 95 :: n_of_int 45 :: []) s)
           ^ "\t" ^ b2s (is_safe_toml_plain_gen toml_plain_extra s)
       | "yaml" ->
           b2s (is_safe_yaml_plain s) ^ "\t" ^ b2s (is_safe_yaml_plain_gen yaml_special_src s)
           ^ "\t" ^ b2s (List.for_all (fun c -> in_ranges c yaml_plain_ranges = yaml_plain_char c) s)
           ^ "\t" ^ b2s (yaml12_core_nonstring s)
       | _ -> failwith ("jsonesc: bad op " ^ op))
  | _ -> failwith "jsonesc: bad case"
