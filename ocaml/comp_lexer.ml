(* comp_lexer.ml — glue for the lexer component.
   cases:  lex0 <bytes> | lex1 <bytes>   -> same format as harness front lex0/lex1, error payload
                                            canonicalised as P=<payload>
           decode <bytes>                -> D=<decode_all> L=<lossy>   (code points) *)
open Model
open Wire

let show_kind (k : lex_error_kind) : ostring * ostring =
  match k with
  | EInvalidChar c -> "InvalidChar", "chr=" ^ hex_of_n c
  | EInvalidUtf8 s -> "InvalidUtf8", "seq=" ^ of_list_n s
  | EUnfinishedMultilineComment -> "UnfinishedMultilineComment", "-"
  | ELeadingZeroInNumber -> "LeadingZeroInNumber", "-"
  | EMissingFracDigits -> "MissingFracDigits", "-"
  | EMissingExpDigits -> "MissingExpDigits", "-"
  | EMissingDigitAfterUnderscore -> "MissingDigitAfterUnderscore", "-"
  | EExpOverflow -> "ExpOverflow", "-"
  | EInvalidEscapeInString c -> "InvalidEscapeInString", "chr=" ^ hex_of_n c
  | EIncompleteUnicodeEscape -> "IncompleteUnicodeEscape", "-"
  | EInvalidUtf16EscapeSequence (a, b) ->
      "InvalidUtf16EscapeSequence", "cu=" ^ hex_of_n a ^ "," ^ (match b with Some x -> hex_of_n x | None -> "-")
  | EUnfinishedString -> "UnfinishedString", "-"
  | EMissingLineBreakAfterTextBlockStart -> "MissingLineBreakAfterTextBlockStart", "-"
  | EMissingWhitespaceTextBlockStart -> "MissingWhitespaceTextBlockStart", "-"
  | EInvalidTextBlockTermination -> "InvalidTextBlockTermination", "-"

let show_lex (r : (token list, lex_error) outcome) : ostring =
  match r with
  | Ok toks -> "OK\t" ^ Tok_wire.of_tokens toks
  | Err e ->
      let (v, p) = show_kind e.err_kind in
      "ERR\tLEX\t" ^ v ^ "\t" ^ Tok_wire.of_span e.err_span ^ "\tP=" ^ p
  | Panic s -> "PANIC\t" ^ string_of_coq s
  | OutOfFuel -> "FUEL"

let handle (fields : ostring list) : ostring =
  match fields with
  | ["lex0"; b] -> show_lex (lex_all false (list_n_of b))
  | ["lex1"; b] -> show_lex (lex_all true (list_n_of b))
  | ["decode"; b] ->
      let bs = list_n_of b in
      let d = match (decode_all bs : (n list, unit) outcome) with
        | Ok l -> of_list_n l | Panic s -> "PANIC:" ^ string_of_coq s | _ -> "FUEL" in
      "D=" ^ d ^ "\tL=" ^ of_list_n (lossy bs)
  | ["encode"; s] -> of_list_n (utf8_encode_all (list_n_of s))
  | _ -> failwith "lexer: bad case"
