(* comp_sort.ml — glue for the sort / set-function models (component "sort").
   case fields:  <op> <keys> [<na>]
     op    sort | uniq | set | uniqsort | inter | union | diff | member | min | max
     keys  comma separated key script, one entry per element:
             <ty>.<rank>.<trap>   keyF returns that key (hex numbers)
             !<id>                keyF raises error id
     na    (inter/union/diff) number of leading entries that belong to [a]
   answer: OK <indices, comma separated> | OK true/false | OK <index> | EMPTY
           | ERR D.<lhs>.<rhs> | ERR S.<ty> | ERR U.<id> | PANIC <site> | FUEL *)
open Model
open Wire

let parse_key (s : ostring) : (wkey, werr) outcome =
  if String.length s > 0 && s.[0] = '!' then
    Err (EUser (n_of_hex (String.sub s 1 (String.length s - 1))))
  else match String.split_on_char '.' s with
    | [t; r; p] -> Ok ((n_of_hex t, n_of_hex r), n_of_hex p)
    | _ -> failwith ("sort: bad key " ^ s)

let show_err (e : werr) : ostring = match e with
  | EDiff (a, b) -> "D." ^ hex_of_n a ^ "." ^ hex_of_n b
  | ESame t -> "S." ^ hex_of_n t
  | EUser i -> "U." ^ hex_of_n i

let show (f : 'a -> ostring) (o : ('a, werr) outcome) : ostring = match o with
  | Ok a -> "OK\t" ^ f a
  | Err e -> "ERR\t" ^ show_err e
  | Panic s -> "PANIC\t" ^ string_of_coq s
  | OutOfFuel -> "FUEL"

let show_idx (l : nat list) : ostring =
  String.concat "," (List.map (fun i -> Printf.sprintf "%x" (int_of_nat i)) l)

let small_nat (s : ostring) : nat =
  let i = int_of_string ("0x" ^ s) in
  if i < 0 || i > 100000 then failwith "sort: na out of range" else nat_of_int i

let handle (fields : ostring list) : ostring =
  match fields with
  | op :: keys :: rest ->
      let ks = List.map parse_key (split_on ',' keys) in
      let na () = match rest with [n] -> small_nat n | _ -> failwith "sort: missing na" in
      (match op with
       | "sort" -> show show_idx (run_sort ks)
       | "uniq" -> show show_idx (run_uniq ks)
       | "set" -> show show_idx (run_set ks)
       | "uniqsort" -> show show_idx (run_uniq_sort ks)
       | "inter" -> show show_idx (run_inter (na ()) ks)
       | "union" -> show show_idx (run_union (na ()) ks)
       | "diff" -> show show_idx (run_diff (na ()) ks)
       | "member" -> show (fun b -> if b then "true" else "false") (run_member ks)
       | "min" -> (match run_min ks with
                   | Ok None -> "EMPTY"
                   | Ok (Some i) -> "OK\t" ^ show_idx [i]
                   | o -> show (fun _ -> "") o)
       | "max" -> (match run_max ks with
                   | Ok None -> "EMPTY"
                   | Ok (Some i) -> "OK\t" ^ show_idx [i]
                   | o -> show (fun _ -> "") o)
       | _ -> failwith ("sort: bad op " ^ op))
  | _ -> failwith "sort: bad case"
