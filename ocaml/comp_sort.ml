(* comp_sort.ml — glue for the sort / set-function models (component "sort").
   case fields:  <op> <keys> [<na>]
     op    sort | uniq | set | uniqsort | inter | union | diff | member | min | max
     keys  comma separated key script, one entry per element:
             <ty>.<rank>.<trap>   keyF returns that key (hex numbers)
             !<id>                keyF raises error id
     na    (inter/union/diff) number of leading entries that belong to [a]
   answer: OK <indices, comma separated> | OK true/false | OK <index> | EMPTY
           | ERR D.<lhs>.<rhs> | ERR S.<ty> | ERR U.<id> | PANIC <site> | FUEL
           followed by  L=<elements on which keyF was applied, in order>
   The answer comes from the Coq entry points run_* (pure).  The L= field comes from
   a second run of the same generic model function with a key function that records
   its calls; both runs must give the same answer (else MODELEXC). *)
open Model
open Wire

let parse_key (s : ostring) : (wkey, werr) outcome =
  if String.length s > 0 && s.[0] = '!' then
    Err (EUser (n_of_hex (String.sub s 1 (String.length s - 1))))
  else match String.split_on_char '.' s with
    | [t; r; p] -> Ok ((n_of_hex t, n_of_hex r), n_of_hex p)
    | _ -> failwith ("sort: bad key " ^ s)

let show_err (e : werr) : ostring = match e with
  | EDiff (a, b) -> "D." ^ hex_of_n a ^ "." ^ hex_of_n b
  | ESame t -> "S." ^ hex_of_n t
  | EUser i -> "U." ^ hex_of_n i

let show (f : 'a -> ostring) (o : ('a, werr) outcome) : ostring = match o with
  | Ok a -> "OK\t" ^ f a
  | Err e -> "ERR\t" ^ show_err e
  | Panic s -> "PANIC\t" ^ string_of_coq s
  | OutOfFuel -> "FUEL"

let show_idx (l : nat list) : ostring =
  String.concat "," (List.map (fun i -> Printf.sprintf "%x" (int_of_nat i)) l)

let show_opt (o : (nat option, werr) outcome) : ostring = match o with
  | Ok None -> "EMPTY"
  | Ok (Some i) -> "OK\t" ^ show_idx [i]
  | o -> show (fun _ -> "") o

let small_int (s : ostring) : int =
  let i = int_of_string ("0x" ^ s) in
  if i < 0 || i > 100000 then failwith "sort: na out of range" else i

(* [a, a+1, .., a+n-1] as Coq nats *)
let seq_nat (a : int) (n : int) : nat list = List.init (max n 0) (fun k -> nat_of_int (a + k))

let calls : int list ref = ref []

let logging_keyf (ks : (wkey, werr) outcome list) : nat -> (wkey, werr) outcome =
  let arr = Array.of_list ks in
  fun i ->
    let j = int_of_nat i in
    calls := j :: !calls;
    if j < Array.length arr then arr.(j) else failwith "sort: keyF applied outside the script"

let with_log (pure : ostring) (again : unit -> ostring) : ostring =
  calls := [];
  let second = again () in
  if second <> pure then failwith ("sort: logged run differs from the pure run: " ^ second ^ " / " ^ pure);
  pure ^ "\tL=" ^ String.concat "," (List.rev_map (Printf.sprintf "%x") !calls)

let handle (fields : ostring list) : ostring =
  match fields with
  | op :: keys :: rest ->
      let ks = List.map parse_key (split_on ',' keys) in
      let n = List.length ks in
      let na () = match rest with [x] -> small_int x | _ -> failwith "sort: missing na" in
      let kf = logging_keyf ks in
      let b2s b = if b then "true" else "false" in
      (match op with
       | "sort" -> with_log (show show_idx (run_sort ks)) (fun () -> show show_idx (std_sort kf wcmp (seq_nat 0 n)))
       | "uniq" -> with_log (show show_idx (run_uniq ks)) (fun () -> show show_idx (std_uniq kf weqv (seq_nat 0 n)))
       | "set" -> with_log (show show_idx (run_set ks)) (fun () -> show show_idx (std_set kf wcmp weqv (seq_nat 0 n)))
       | "uniqsort" ->
           with_log (show show_idx (run_uniq_sort ks))
             (fun () -> show show_idx (match std_sort kf wcmp (seq_nat 0 n) with
                                       | Ok s -> std_uniq kf weqv s
                                       | Err e -> Err e | Panic s -> Panic s | OutOfFuel -> OutOfFuel))
       | "inter" -> let a = na () in
           with_log (show show_idx (run_inter (nat_of_int a) ks))
             (fun () -> show show_idx (std_set_inter kf wcmp (seq_nat 0 a) (seq_nat a (n - a))))
       | "union" -> let a = na () in
           with_log (show show_idx (run_union (nat_of_int a) ks))
             (fun () -> show show_idx (std_set_union kf wcmp (seq_nat 0 a) (seq_nat a (n - a))))
       | "diff" -> let a = na () in
           with_log (show show_idx (run_diff (nat_of_int a) ks))
             (fun () -> show show_idx (std_set_diff kf wcmp (seq_nat 0 a) (seq_nat a (n - a))))
       | "member" ->
           with_log (show b2s (run_member ks))
             (fun () -> show b2s (std_set_member kf wcmp (nat_of_int 0) (seq_nat 1 (n - 1))))
       | "min" -> with_log (show_opt (run_min ks)) (fun () -> show_opt (std_min_array_idx kf wcmp (seq_nat 0 n)))
       | "max" -> with_log (show_opt (run_max ks)) (fun () -> show_opt (std_max_array_idx kf wcmp (seq_nat 0 n)))
       | _ -> failwith ("sort: bad op " ^ op))
  | _ -> failwith "sort: bad case"
