(* comp_strfns.ml — glue for the string-builtin model.
   case:   <fn name> TAB <arg> TAB <arg> ...
   value:  n | t | f | d<bits hex> | s<cps hex, comma separated> | o | F<tag hex>
           | a(<value>;<value>;...)        (a() = empty array)
   answer: OK TAB <value>   |  ERR TAB <variant>[:<arg index hex>]  |  PANIC TAB <site>  | OUTOFFUEL
   special: fn name "utf8len" with one string argument answers OK TAB d... of utf8_len *)
open Model
open Wire

let fn_of_name (s : ostring) : fn = match s with
  | "length" -> FLength | "index" -> FIndex | "sliceExpr" -> FSliceExpr | "slice" -> FSlice
  | "substr" -> FSubstr | "findSubstr" -> FFindSubstr | "stringChars" -> FStringChars
  | "codepoint" -> FCodepoint | "char" -> FChar | "reverse" -> FReverse | "split" -> FSplit
  | "splitLimit" -> FSplitLimit | "splitLimitR" -> FSplitLimitR | "join" -> FJoin
  | "stripChars" -> FStripChars | "lstripChars" -> FLStripChars | "rstripChars" -> FRStripChars
  | "strReplace" -> FStrReplace | "trim" -> FTrim | "asciiUpper" -> FAsciiUpper
  | "asciiLower" -> FAsciiLower | "startsWith" -> FStartsWith | "endsWith" -> FEndsWith
  | "map" -> FMap | "flatMap" -> FFlatMap
  | _ -> failwith ("strfns: unknown function " ^ s)

(* recursive-descent reader of the value syntax *)
let parse_value (s : ostring) : value =
  let n = String.length s in
  let pos = ref 0 in
  let is_tok c = (c >= '0' && c <= '9') || (c >= 'a' && c <= 'f') || c = ',' in
  let token () =
    let st = !pos in
    while !pos < n && is_tok s.[!pos] do incr pos done;
    String.sub s st (!pos - st) in
  let rec value () : value =
    if !pos >= n then failwith "strfns: empty value";
    let c = s.[!pos] in
    incr pos;
    match c with
    | 'n' -> VNull
    | 't' -> VBool true
    | 'f' -> VBool false
    | 'o' -> VObj
    | 'd' -> VNum (f_of_bits (n_of_hex (token ())))
    | 's' -> VStr (list_n_of (token ()))
    | 'F' -> VFun (n_of_hex (token ()))
    | 'a' ->
        if !pos >= n || s.[!pos] <> '(' then failwith "strfns: expected (";
        incr pos;
        if !pos < n && s.[!pos] = ')' then (incr pos; VArr [])
        else begin
          let items = ref [value ()] in
          while !pos < n && s.[!pos] = ';' do incr pos; items := value () :: !items done;
          if !pos >= n || s.[!pos] <> ')' then failwith "strfns: expected )";
          incr pos;
          VArr (List.rev !items)
        end
    | _ -> failwith ("strfns: bad value " ^ s) in
  let v = value () in
  if !pos <> n then failwith ("strfns: trailing text in " ^ s);
  v

let rec show_value (v : value) : ostring = match v with
  | VNull -> "n"
  | VBool true -> "t"
  | VBool false -> "f"
  | VNum x -> "d" ^ hex_of_n (f_to_bits x)
  | VStr s -> "s" ^ of_list_n s
  | VArr l -> "a(" ^ String.concat ";" (List.map show_value l) ^ ")"
  | VObj -> "o"
  | VFun t -> "F" ^ hex_of_n t

let show_err (e : err) : ostring = match e with
  | EArgType i -> "InvalidStdFuncArgType:" ^ hex_of_n i
  | EOther -> "Other"
  | EStringIndexIsNotNumber -> "StringIndexIsNotNumber"
  | EArrayIndexIsNotNumber -> "ArrayIndexIsNotNumber"
  | ENumericIndexIsNotValid -> "NumericIndexIsNotValid"
  | ENumericIndexOutOfRange -> "NumericIndexOutOfRange"
  | ESliceIndexOrStepIsNotNumber -> "SliceIndexOrStepIsNotNumber"
  | EInvalidSlicedType -> "InvalidSlicedType"
  | EInvalidIndexedType -> "InvalidIndexedType"
  | ENotModelled -> "NOTMODELLED"

let handle (fields : ostring list) : ostring =
  match fields with
  | ["utf8len"; a] ->
      (match parse_value a with
       | VStr s -> "OK\t" ^ hex_of_n (utf8_len s)
       | _ -> failwith "strfns: utf8len wants a string")
  | name :: args ->
      let f = fn_of_name name in
      let args = List.map parse_value args in
      (match call f args with
       | Ok v -> "OK\t" ^ show_value v
       | Err e -> "ERR\t" ^ show_err e
       | Panic site -> "PANIC\t" ^ string_of_coq site
       | OutOfFuel -> "OUTOFFUEL")
  | _ -> failwith "strfns: bad case"
