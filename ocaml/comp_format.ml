(* comp_format.ml — glue for the format component (std.format / % model).

   case fields:  <mode> TAB <fmt code points> TAB <args>
     mode  "f"  : run Format.format_run
           "p"  : only parse the format string (totality stream)
     args  A;<v>;<v>...      array argument
           O;<key cps with '.'>=<v>;...   object argument (all fields)
           S;<v>             any other single value
     <v>   n<64-bit pattern hex> | s<cps, '.' separated> | o<type>:<cps '.' separated>
           type in null bool array object function
   answer: OK <cps> | ERR <name> [details] | PANIC <site> | FUEL *)
open Model
open Wire

let cps_dot (s : ostring) : n list =
  if s = "" then [] else List.map n_of_hex (String.split_on_char '.' s)

let vtype_of (s : ostring) : vtype = match s with
  | "null" -> TNull | "bool" -> TBool | "number" -> TNumber | "string" -> TString
  | "array" -> TArray | "object" -> TObject | "function" -> TFunction
  | _ -> failwith ("format: bad type " ^ s)

let vtype_name (t : vtype) : ostring = match t with
  | TNull -> "null" | TBool -> "boolean" | TNumber -> "number" | TString -> "string"
  | TArray -> "array" | TObject -> "object" | TFunction -> "function"

let parse_val (s : ostring) : fval =
  let rest = String.sub s 1 (String.length s - 1) in
  match s.[0] with
  | 'n' -> VNum (f_of_bits (n_of_hex rest))
  | 's' -> VStr (cps_dot rest)
  | 'o' ->
      let i = String.index rest ':' in
      VOther (vtype_of (String.sub rest 0 i), cps_dot (String.sub rest (i + 1) (String.length rest - i - 1)))
  | _ -> failwith ("format: bad value " ^ s)

let parse_args (s : ostring) : fargs =
  match String.split_on_char ';' s with
  | "A" :: vs -> AArray (List.map parse_val vs)
  | "S" :: [v] -> ASingle (parse_val v)
  | "O" :: fs ->
      AObject (List.map (fun f ->
        let i = String.index f '=' in
        (cps_dot (String.sub f 0 i), parse_val (String.sub f (i + 1) (String.length f - i - 1)))) fs)
  | _ -> failwith "format: bad args"

let numconv_name (c : numconv) : ostring = match c with
  | NDec -> "d" | NOct -> "o" | NHex -> "x" | NExp -> "e" | NFloat -> "f" | NG -> "g"

let show_err (e : ferr) : ostring = match e with
  | ETruncated -> "Truncated"
  | EWidthTooLarge -> "WidthTooLarge"
  | EPrecTooLarge -> "PrecTooLarge"
  | EMissingPrecDigits -> "MissingPrecDigits"
  | EBadConv c -> "BadConv " ^ hex_of_n c
  | ETooMany (a, b) -> "TooMany " ^ hex_of_n a ^ " " ^ hex_of_n b
  | ENotEnough a -> "NotEnough " ^ hex_of_n a
  | EPrecNotNumber t -> "PrecNotNumber " ^ vtype_name t
  | EWidthNotNumber t -> "WidthNotNumber " ^ vtype_name t
  | EBadPrecValue -> "BadPrecValue"
  | EBadWidthValue -> "BadWidthValue"
  | EStarWidthObject -> "StarWidthObject"
  | EStarPrecObject -> "StarPrecObject"
  | EMkeyRequired -> "MkeyRequired"
  | EMissingField k -> "MissingField " ^ of_list_n k
  | ENeedNumber (c, t) -> "NeedNumber " ^ numconv_name c ^ " " ^ vtype_name t
  | ECharLen n -> "CharLen " ^ hex_of_n n
  | EBadCodepoint -> "BadCodepoint"
  | ECharType t -> "CharType " ^ vtype_name t

let show_res (r : (str, ferr) outcome) : ostring = match r with
  | Ok s -> "OK " ^ of_list_n s
  | Err e -> "ERR " ^ show_err e
  | Panic site -> "PANIC " ^ string_of_coq site
  | OutOfFuel -> "FUEL"

let handle (fields : ostring list) : ostring =
  match fields with
  | ["f"; fmt; args] -> show_res (format_run (list_n_of fmt) (parse_args args))
  | ["p"; fmt] ->
      (match parse_format_codes (list_n_of fmt) with
       | Ok parts -> "OK " ^ hex_of_n (n_of_int (List.length parts))
       | Err e -> "ERR " ^ show_err e
       | Panic site -> "PANIC " ^ string_of_coq site
       | OutOfFuel -> "FUEL")
  | _ -> failwith "format: bad case"
