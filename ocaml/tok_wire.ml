(* tok_wire.ml — tokens <-> wire S-expressions (format of harness/src/astdump.rs) *)
open Model
open Wire
open Sexp

let str_of (w : ostring) : n list = if w = "-" then [] else list_n_of w
let of_str (l : n list) : ostring = if l = [] then "-" else of_list_n l

let span_of (w : ostring) : n * n =
  match String.split_on_char ':' w with
  | [a; b] -> (n_of_hex a, n_of_hex b)
  | _ -> failwith ("bad span " ^ w)
let of_span ((a, b) : n * n) : ostring = hex_of_n a ^ ":" ^ hex_of_n b

let stoken_names : (ostring * stoken) list = [
  "Assert", KAssert; "Else", KElse; "Error", KError; "False", KFalse; "For", KFor; "Function", KFunction;
  "If", KIf; "Import", KImport; "Importstr", KImportstr; "Importbin", KImportbin; "In", KIn; "Local", KLocal;
  "Null", KNull; "Tailstrict", KTailstrict; "Then", KThen; "Self_", KSelf; "Super", KSuper; "True", KTrue;
  "Exclam", SExclam; "ExclamEq", SExclamEq; "Dollar", SDollar; "Percent", SPercent; "Amp", SAmp; "AmpAmp", SAmpAmp;
  "LeftParen", SLeftParen; "RightParen", SRightParen; "Asterisk", SAsterisk; "Plus", SPlus; "PlusColon", SPlusColon;
  "PlusColonColon", SPlusColonColon; "PlusColonColonColon", SPlusColonColonColon; "Comma", SComma; "Minus", SMinus;
  "Dot", SDot; "Slash", SSlash; "Colon", SColon; "ColonColon", SColonColon; "ColonColonColon", SColonColonColon;
  "Semicolon", SSemicolon; "Lt", SLt; "LtLt", SLtLt; "LtEq", SLtEq; "Eq", SEq; "EqEq", SEqEq; "Gt", SGt; "GtEq", SGtEq;
  "GtGt", SGtGt; "LeftBracket", SLeftBracket; "RightBracket", SRightBracket; "Hat", SHat; "LeftBrace", SLeftBrace;
  "Pipe", SPipe; "PipePipe", SPipePipe; "RightBrace", SRightBrace; "Tilde", STilde ]

let stoken_of (w : ostring) : stoken =
  try List.assoc w stoken_names with Not_found -> failwith ("bad stoken " ^ w)
let of_stoken (k : stoken) : ostring =
  fst (List.find (fun (_, k') -> k' = k) stoken_names)

let token_of (x : sx) : token =
  match x with
  | L [A "EOF"; A sp] -> { tok_span = span_of sp; tok_kind = TEndOfFile }
  | L [A "WS"; A sp] -> { tok_span = span_of sp; tok_kind = TWhitespace }
  | L [A "Comment"; A sp] -> { tok_span = span_of sp; tok_kind = TComment }
  | L [A "S"; A k; A sp] -> { tok_span = span_of sp; tok_kind = TSimple (stoken_of k) }
  | L [A "Op"; A s; A sp] -> { tok_span = span_of sp; tok_kind = TOtherOp (str_of s) }
  | L [A "Id"; A s; A sp] -> { tok_span = span_of sp; tok_kind = TIdent (str_of s) }
  | L [A "Num"; A d; A e; A sp] -> { tok_span = span_of sp; tok_kind = TNumber { num_digits = str_of d; num_exp = z_of_hex e } }
  | L [A "Str"; A s; A sp] -> { tok_span = span_of sp; tok_kind = TString (str_of s) }
  | L [A "TB"; A s; A sp] -> { tok_span = span_of sp; tok_kind = TTextBlock (str_of s) }
  | _ -> failwith "bad token"

let tokens_of (w : ostring) : token list = List.map token_of (Sexp.parse w)

let of_token (t : token) : ostring =
  let sp = of_span t.tok_span in
  match t.tok_kind with
  | TEndOfFile -> "(EOF " ^ sp ^ ")"
  | TWhitespace -> "(WS " ^ sp ^ ")"
  | TComment -> "(Comment " ^ sp ^ ")"
  | TSimple k -> "(S " ^ of_stoken k ^ " " ^ sp ^ ")"
  | TOtherOp s -> "(Op " ^ of_str s ^ " " ^ sp ^ ")"
  | TIdent s -> "(Id " ^ of_str s ^ " " ^ sp ^ ")"
  | TNumber nb -> "(Num " ^ of_str nb.num_digits ^ " " ^ hex_of_z nb.num_exp ^ " " ^ sp ^ ")"
  | TString s -> "(Str " ^ of_str s ^ " " ^ sp ^ ")"
  | TTextBlock s -> "(TB " ^ of_str s ^ " " ^ sp ^ ")"

let of_tokens (l : token list) : ostring = String.concat " " (List.map of_token l)
