(* comp_manifest.ml — glue for the manifestation component.
   fields: op, fmt, numtable, payload
     fmt      = ts | ml | sj (std.manifestJson) | mn (minified) | ex/<indent cps>/<newline cps>/<key_val_sep cps>
     numtable = <bits hex>=<text cps>;...      show = lookup by bit pattern, read = lookup by text
     value    = space separated prefix tokens:  n | t | f | d<bits> | s<cps> | a<count> items… | o<count> (s<key> value)…
   ops:
     man    value -> <text> TAB <OK value|ERR: decode of that text> TAB <erase_ws text> TAB <minified text>
     dec    text  -> OK <value> | ERR
     tostr  value -> text                      (std.toString)
     cli    value -> D<default doc> TAB Y<yaml stream doc>|YNONE TAB M<name>=<content>;…|MNONE
     py     value -> P<std.manifestPython text> TAB V<std.manifestPythonVars text>|VNONE
     erase  text  -> text *)
open Model
open Wire

let parse_numtable (s : ostring) =
  let by_bits = Hashtbl.create 16 and by_text = Hashtbl.create 16 in
  List.iter (fun e ->
    match String.index_opt e '=' with
    | Some i ->
        let b = String.sub e 0 i and t = String.sub e (i + 1) (String.length e - i - 1) in
        Hashtbl.replace by_bits (hex_of_n (n_of_hex b)) (list_n_of t);
        Hashtbl.replace by_text t (f_of_bits (n_of_hex b))
    | None -> failwith "manifest: bad numtable entry") (split_on ';' s);
  let show (x : f64) : str =
    let k = hex_of_n (f_to_bits x) in
    (try Hashtbl.find by_bits k with Not_found -> failwith ("manifest: no text for double " ^ k)) in
  let read (t : str) : f64 option = Hashtbl.find_opt by_text (of_list_n t) in
  (show, read)

let parse_value (s : ostring) : jvalue =
  let toks = ref (List.filter (fun t -> t <> "") (String.split_on_char ' ' s)) in
  let next () = match !toks with t :: r -> toks := r; t | [] -> failwith "manifest: value ends early" in
  let rest t = String.sub t 1 (String.length t - 1) in
  let rec value () : jvalue =
    let t = next () in
    match t.[0] with
    | 'n' -> JNull
    | 't' -> JBool true
    | 'f' -> JBool false
    | 'd' -> JNum (f_of_bits (n_of_hex (rest t)))
    | 's' -> JStr (list_n_of (rest t))
    | 'a' -> let k = int_of_string ("0x" ^ rest t) in JArr (List.init k (fun _ -> value ()))
    | 'o' -> let k = int_of_string ("0x" ^ rest t) in
        JObj (List.init k (fun _ ->
          let kt = next () in
          if kt.[0] <> 's' then failwith "manifest: key token";
          let key = list_n_of (rest kt) in
          let v = value () in (key, v)))
    | _ -> failwith ("manifest: bad token " ^ t) in
  let v = value () in
  if !toks <> [] then failwith "manifest: trailing tokens";
  v

let rec show_value (v : jvalue) : ostring =
  match v with
  | JNull -> "n"
  | JBool true -> "t"
  | JBool false -> "f"
  | JNum x -> "d" ^ hex_of_n (f_to_bits x)
  | JStr s -> "s" ^ of_list_n s
  | JArr l -> String.concat " " (Printf.sprintf "a%x" (List.length l) :: List.map show_value l)
  | JObj l -> String.concat " " (Printf.sprintf "o%x" (List.length l)
                                 :: List.map (fun (k, v) -> "s" ^ of_list_n k ^ " " ^ show_value v) l)

let parse_fmt (s : ostring) : json_format =
  match s with
  | "ts" -> fmt_to_string
  | "ml" -> fmt_manifest
  | "sj" -> fmt_std_json
  | "mn" -> fmt_minified
  | _ ->
      (match String.split_on_char '/' s with
       | ["ex"; i; n; k] -> fmt_std_ex (list_n_of i) (list_n_of n) (list_n_of k)
       | _ -> failwith ("manifest: bad fmt " ^ s))

let dec_out read text =
  match decode read text with
  | Ok v -> "OK " ^ show_value v
  | _ -> "ERR"

let handle (fields : ostring list) : ostring =
  match fields with
  | [op; fmt; numtable; payload] ->
      let (show, read) = parse_numtable numtable in
      (match op with
       | "man" ->
           let f = parse_fmt fmt in
           let v = parse_value payload in
           let text = manifest show f O v in
           of_list_n text ^ "\t" ^ dec_out read text ^ "\t" ^ of_list_n (erase_ws text)
           ^ "\t" ^ of_list_n (manifest show fmt_minified O v)
       | "dec" -> dec_out read (list_n_of payload)
       | "tostr" -> of_list_n (to_string show (parse_value payload))
       | "cli" ->
           let v = parse_value payload in
           let y = match cli_yaml_stream show v with Some t -> "Y" ^ of_list_n t | None -> "YNONE" in
           let m = match cli_multi show v with
             | Some l -> "M" ^ String.concat ";" (List.map (fun (k, c) -> of_list_n k ^ "=" ^ of_list_n c) l)
             | None -> "MNONE" in
           "D" ^ of_list_n (cli_default show v) ^ "\t" ^ y ^ "\t" ^ m
       | "py" ->
           let v = parse_value payload in
           "P" ^ of_list_n (manifest_python show v) ^ "\t"
           ^ (match manifest_python_vars show v with Some t -> "V" ^ of_list_n t | None -> "VNONE")
       | "erase" -> of_list_n (erase_ws (list_n_of payload))
       | _ -> failwith ("manifest: bad op " ^ op))
  | _ -> failwith "manifest: bad case"
