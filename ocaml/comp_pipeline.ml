(* comp_pipeline.ml — glue for the whole pipeline from source bytes (Model/Pipeline.v).
   fields: [ options fuel=HEX;limit=HEX;bfs=0|1;tst=0|1 ; source bytes ]
   answer: the format of comp_refsem.ml for evaluation outcomes
             OK TAB json TAB T=traces | ERR TAB variant TAB message|- TAB T=.. | STATIC TAB variant
             | UNSUPPORTED TAB what | FUEL | PANIC TAB site
           and for the front end's verdict
             FRONT TAB LEX|PARSE|ANALYZE TAB variant TAB spans (';' separated start:end) *)
open Model
open Wire

let opt (o : ostring) (k : ostring) (dflt : ostring) : ostring =
  let rec go = function
    | [] -> dflt
    | kv :: r -> (match String.index_opt kv '=' with
        | Some i when String.sub kv 0 i = k -> String.sub kv (i + 1) (String.length kv - i - 1)
        | _ -> go r) in
  go (String.split_on_char ';' o)

let rec json_out (b : Buffer.t) (j : json) : unit =
  match j with
  | JNull -> Buffer.add_string b "N"
  | JBool true -> Buffer.add_string b "T"
  | JBool false -> Buffer.add_string b "F"
  | JNum f -> Buffer.add_char b '#'; Buffer.add_string b (hex_of_n (f_to_bits f))
  | JStr s -> Buffer.add_char b '"'; Buffer.add_string b (of_list_n s)
  | JArr items ->
      Buffer.add_string b "[";
      List.iter (fun x -> Buffer.add_char b ' '; json_out b x) items;
      Buffer.add_string b " ]"
  | JObj fields ->
      Buffer.add_string b "{";
      List.iter (fun (k, v) -> Buffer.add_string b " \""; Buffer.add_string b (of_list_n k);
                  Buffer.add_char b ' '; json_out b v) fields;
      Buffer.add_string b " }"
  | JFunc -> Buffer.add_string b "FUNC"

let traces (t : n list list) : ostring = "T=" ^ String.concat "/" (List.map of_list_n t)

let lex_variant (k : lex_error_kind) : ostring = match k with
  | EInvalidChar _ -> "InvalidChar" | EInvalidUtf8 _ -> "InvalidUtf8"
  | EUnfinishedMultilineComment -> "UnfinishedMultilineComment" | ELeadingZeroInNumber -> "LeadingZeroInNumber"
  | EMissingFracDigits -> "MissingFracDigits" | EMissingExpDigits -> "MissingExpDigits"
  | EMissingDigitAfterUnderscore -> "MissingDigitAfterUnderscore" | EExpOverflow -> "ExpOverflow"
  | EInvalidEscapeInString _ -> "InvalidEscapeInString" | EIncompleteUnicodeEscape -> "IncompleteUnicodeEscape"
  | EInvalidUtf16EscapeSequence _ -> "InvalidUtf16EscapeSequence" | EUnfinishedString -> "UnfinishedString"
  | EMissingLineBreakAfterTextBlockStart -> "MissingLineBreakAfterTextBlockStart"
  | EMissingWhitespaceTextBlockStart -> "MissingWhitespaceTextBlockStart"
  | EInvalidTextBlockTermination -> "InvalidTextBlockTermination"

let analyze_variant (e : analyze_error) : ostring = match e with
  | UnknownVariable _ -> "UnknownVariable" | SelfOutsideObject _ -> "SelfOutsideObject"
  | SuperOutsideObject _ -> "SuperOutsideObject" | DollarOutsideObject _ -> "DollarOutsideObject"
  | RepeatedLocalName _ -> "RepeatedLocalName" | RepeatedFieldName _ -> "RepeatedFieldName"
  | RepeatedParamName _ -> "RepeatedParamName" | PositionalArgAfterNamed _ -> "PositionalArgAfterNamed"
  | TextBlockAsImportPath _ -> "TextBlockAsImportPath" | ComputedImportPath _ -> "ComputedImportPath"

let of_span ((a, b) : n * n) : ostring = hex_of_n a ^ ":" ^ hex_of_n b

let handle (fields : ostring list) : ostring =
  match fields with
  | [o; src] ->
      let fuel = nat_of_int (int_of_string ("0x" ^ opt o "fuel" "1000")) in
      let c = { p_fuel = fuel;
                p_cfg = { c_limit = n_of_hex (opt o "limit" "c8"); c_bfs = (opt o "bfs" "0" = "1");
                          c_ts_tail = (opt o "tst" "0" = "1") } } in
      let (t, r) = eval_model (list_n_of src) c in
      (match r with
       | Ok j -> let b = Buffer.create 256 in json_out b j; "OK\t" ^ Buffer.contents b ^ "\t" ^ traces t
       | Err (PFront x) ->
           let spans = String.concat ";" (List.map of_span (front_error_spans x)) in
           (match x with
            | FLex e -> "FRONT\tLEX\t" ^ lex_variant e.err_kind ^ "\t" ^ spans
            | FParse _ -> "FRONT\tPARSE\tExpected\t" ^ spans
            | FAnalyze e -> "FRONT\tANALYZE\t" ^ analyze_variant e ^ "\t" ^ spans)
       | Err (PEval EStackOverflow) -> "ERR\tStackOverflow\t-\t" ^ traces t
       | Err (PEval (EExplicit m)) -> "ERR\tExplicitError\t" ^ (if m = [] then "" else of_list_n m) ^ "\t" ^ traces t
       | Err (PEval (EAssertFailed None)) -> "ERR\tAssertFailed\t-\t" ^ traces t
       | Err (PEval (EAssertFailed (Some m))) -> "ERR\tAssertFailed\t" ^ (if m = [] then "" else of_list_n m) ^ "\t" ^ traces t
       | Err (PEval (EKind v)) -> "ERR\t" ^ string_of_coq v ^ "\t-\t" ^ traces t
       | Err (PEval (EStatic v)) -> "STATIC\t" ^ string_of_coq v
       | Err (PEval (EUnsupported w)) -> "UNSUPPORTED\t" ^ of_list_n w
       | Panic s -> "PANIC\t" ^ string_of_coq s
       | OutOfFuel -> "FUEL")
  | _ -> failwith "pipeline: bad case"
