(* comp_astecho.ml — wire self-test: reads tokens / AST and prints them back *)
open Model
let handle (fields : Wire.ostring list) : Wire.ostring =
  match fields with
  | ["tokens"; w] -> Tok_wire.of_tokens (echo_tokens (Tok_wire.tokens_of w))
  | ["ast"; w] -> Ast_wire.of_expr (echo_expr (Ast_wire.ast_of w))
  | _ -> failwith "astecho: bad case"
