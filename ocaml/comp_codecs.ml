(* comp_codecs.ml — glue for the C20 codec models.
   case:   <fn> TAB <arg> [TAB <param>]
   answer: OK TAB <payload> | ERR TAB <kind>[ TAB <detail>…] | PANIC TAB <site> | FUEL *)
open Model
open Wire

let out_of (show : 'a -> ostring) (err : 'e -> ostring) (r : ('a, 'e) outcome) : ostring =
  match r with
  | Ok a -> "OK\t" ^ show a
  | Err e -> "ERR\t" ^ err e
  | Panic s -> "PANIC\t" ^ string_of_coq s
  | OutOfFuel -> "FUEL"

let show_f64 (x : f64) : ostring = hex_of_n (f_to_bits x)

let radix_err = function
  | REmpty -> "empty"
  | RInvalidDigit c -> "digit\t" ^ hex_of_n c
  | ROverflow -> "overflow"

let int_err = function
  | IEmpty -> "empty"
  | IInvalid c -> "digit\t" ^ hex_of_n c
  | IOverflow -> "overflow"

let b64_err = function
  | BNotByteChar -> "notbytechar"
  | BNotByteNumber -> "notbytenumber"
  | BBadLength -> "length"
  | BBadChar c -> "char\t" ^ hex_of_n c

let jkind = function
  | EExpectedValue -> "ExpectedValue"
  | EExpectedEof -> "ExpectedEof"
  | EExpected1 c -> "Expected1:" ^ hex_of_n c
  | EExpected2 (a, b) -> "Expected2:" ^ hex_of_n a ^ ":" ^ hex_of_n b
  | EInvalidNumber -> "InvalidNumber"
  | ENumberOverflow -> "NumberOverflow"
  | EUnfinishedString -> "UnfinishedString"
  | EInvalidChrInString -> "InvalidChrInString"
  | EInvalidStringEscape -> "InvalidStringEscape"
  | EExpectedObjectKey -> "ExpectedObjectKey"
  | ERepeatedFieldName k -> "RepeatedFieldName:" ^ String.concat "." (List.map hex_of_n k)

let jerr (e : jerr) : ostring =
  jkind e.je_kind ^ "\t" ^ hex_of_n e.je_line ^ "\t" ^ hex_of_n e.je_col

let dotted (s : n list) : ostring = String.concat "." (List.map hex_of_n s)

let show_json (v : jvalue) : ostring =
  let buf = Buffer.create 256 in
  let rec go v = match v with
    | JNull -> Buffer.add_string buf "n"
    | JBool true -> Buffer.add_string buf "t"
    | JBool false -> Buffer.add_string buf "f"
    | JNum x -> Buffer.add_string buf ("d" ^ show_f64 x)
    | JStr s -> Buffer.add_string buf ("s" ^ dotted s)
    | JArr l ->
        Buffer.add_string buf "[";
        List.iter (fun x -> Buffer.add_char buf ' '; go x) l;
        Buffer.add_string buf " ]"
    | JObj l ->
        Buffer.add_string buf "{";
        List.iter (fun (k, x) -> Buffer.add_string buf (" k" ^ dotted k ^ " "); go x) l;
        Buffer.add_string buf " }" in
  go v; Buffer.contents buf

let handle (fields : ostring list) : ostring =
  match fields with
  | fn :: arg :: rest ->
      let param () = match rest with p :: _ -> n_of_hex p | [] -> failwith "codecs: missing parameter" in
      (match fn with
       | "parseInt" -> out_of show_f64 int_err (parse_int (list_n_of arg))
       | "parseOctal" -> out_of show_f64 radix_err (parse_num_radix (n_of_int 8) (list_n_of arg))
       | "parseHex" -> out_of show_f64 radix_err (parse_num_radix (n_of_int 16) (list_n_of arg))
       | "parseOctal_orig" -> out_of show_f64 radix_err (parse_num_radix_orig (n_of_int 8) (list_n_of arg))
       | "parseHex_orig" -> out_of show_f64 radix_err (parse_num_radix_orig (n_of_int 16) (list_n_of arg))
       | "base64s" -> out_of of_list_n b64_err (base64_string (list_n_of arg))
       | "base64n" -> out_of of_list_n b64_err (base64_numbers (List.map f_of_bits (list_n_of arg)))
       | "base64dec" -> out_of of_list_n b64_err (base64_decode_bytes (list_n_of arg))
       | "encodeUTF8" -> "OK\t" ^ of_list_n (encode_utf8 (list_n_of arg))
       | "decodeUTF8" -> "OK\t" ^ of_list_n (decode_lossy (list_n_of arg))
       | "escBash" -> "OK\t" ^ of_list_n (escape_bash (list_n_of arg))
       | "escDollars" -> "OK\t" ^ of_list_n (escape_dollars (list_n_of arg))
       | "escXml" -> "OK\t" ^ of_list_n (escape_xml (list_n_of arg))
       | "escJson" -> "OK\t" ^ of_list_n (escape_json (param ()) (list_n_of arg))
       | "escPython" -> "OK\t" ^ of_list_n (escape_python (param ()) (list_n_of arg))
       | "parseJson" -> out_of show_json jerr (parse_json (list_n_of arg))
       | "md5" -> "OK\t" ^ of_list_n (std_md5 (list_n_of arg))
       | "sha1" -> "OK\t" ^ of_list_n (std_sha1 (list_n_of arg))
       | "sha256" -> "OK\t" ^ of_list_n (std_sha256 (list_n_of arg))
       | "sha512" -> "OK\t" ^ of_list_n (std_sha512 (list_n_of arg))
       | "sha3" -> "OK\t" ^ of_list_n (std_sha3 (list_n_of arg))
       | _ -> failwith ("codecs: unknown function " ^ fn))
  | _ -> failwith "codecs: bad case"
