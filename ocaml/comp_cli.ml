(* comp_cli.ml — glue for the cli component: one case = one S-expression
   "(mode cfg world)" (format documented in tools/props/c12.py); the answer is
   exit status, stdout bytes, stderr flag and the fs::write effects. *)
open Model
open Wire
open Sexp

let bad what = failwith ("cli: bad " ^ what)

(* bytes: atom "x" followed by hex pairs *)
let bytes_of_atom (s : ostring) : n list =
  let n = String.length s in
  if n < 1 || s.[0] <> 'x' || (n - 1) mod 2 <> 0 then bad ("bytes atom " ^ s);
  List.init ((n - 1) / 2) (fun i -> n_of_int (hexval s.[1 + 2 * i] * 16 + hexval s.[2 + 2 * i]))

let hex_of_bytes (l : n list) : ostring =
  let buf = Buffer.create 64 in
  List.iter (fun b -> Buffer.add_string buf (Printf.sprintf "%02x" (int_of_n b))) l;
  Buffer.contents buf

let p_bytes = function A s -> bytes_of_atom s | _ -> bad "bytes"
let p_bool = function A "0" -> false | A "1" -> true | _ -> bad "bool"
let p_n = function
  | A s when String.length s >= 1 && s.[0] = 'n' -> n_of_hex (String.sub s 1 (String.length s - 1))
  | _ -> bad "number"
let p_opt f = function L [] -> None | L [x] -> Some (f x) | _ -> bad "option"
let p_list f = function L l -> List.map f l | _ -> bad "list"

let p_cfg = function
  | L [inp; exec; jpath; out; multi; yaml; str; ntn; ms; mt; es; esf; ec; ecf; ts; tsf; tc; tcf] ->
      { rc_input = p_bytes inp; rc_exec = p_bool exec; rc_jpath = p_list p_bytes jpath;
        rc_output = p_opt p_bytes out; rc_multi = p_opt p_bytes multi; rc_yaml = p_bool yaml;
        rc_string = p_bool str; rc_ntn = p_bool ntn; rc_max_stack = p_opt p_n ms; rc_max_trace = p_opt p_n mt;
        rc_ext_str = p_list p_bytes es; rc_ext_str_file = p_list p_bytes esf;
        rc_ext_code = p_list p_bytes ec; rc_ext_code_file = p_list p_bytes ecf;
        rc_tla_str = p_list p_bytes ts; rc_tla_str_file = p_list p_bytes tsf;
        rc_tla_code = p_list p_bytes tc; rc_tla_code_file = p_list p_bytes tcf }
  | _ -> bad "cfg"

let p_env_ans = function A "U" -> EnvNotUnicode | A "N" -> EnvUnset | L [A "V"; b] -> EnvVal (p_bytes b) | _ -> bad "env answer"
let p_read_ans = function A "F" -> ReadFail | A "N8" -> ReadNotUtf8 | L [A "V"; b] -> ReadOk (p_bytes b) | _ -> bad "read answer"
let p_thunk = function L [A "S"; b] -> ThStr (p_bytes b) | L [A "L"; n] -> ThLoaded (p_n n) | _ -> bad "thunk"
let p_binding = function A "D" -> BDefault | L [A "A"; t] -> BArg (p_thunk t) | _ -> bad "binding"
let p_pair f g = function L [a; b] -> (f a, g b) | _ -> bad "pair"
let p_shape = function
  | A "X" -> ShOther
  | L (A "F" :: ps) -> ShFunc (List.map (p_pair p_bytes p_bool) ps)
  | L [A "S"; b] -> ShStr (p_bytes b)
  | L (A "A" :: vs) -> ShArr (List.map p_n vs)
  | L (A "O" :: fs) -> ShObj (List.map (p_pair p_bytes p_n) fs)
  | _ -> bad "shape"
let p_limit = p_opt p_n
let p_target = function A "NC" -> TNoCreate | L [A "D"; l] -> TDev (p_limit l) | _ -> bad "target"
let p_stdout = function A "C" -> SoClosed | L [A "D"; l] -> SoDev (p_limit l) | _ -> bad "stdout"

let p_world = function
  | L [clap; colored; stdin; env; read; lv; lr; ev; sh; call; man; tgt; so; cap] ->
      { t_clap_ok = p_bool clap; t_colored = p_bool colored; t_stdin = p_opt p_bytes stdin;
        t_env = p_list (p_pair p_bytes p_env_ans) env;
        t_read = p_list (p_pair p_bytes p_read_ans) read;
        t_load_virt = p_list (function L [p; d; a] -> ((p_bytes p, p_bytes d), p_opt p_n a) | _ -> bad "load_virt") lv;
        t_load_real = p_list (p_pair p_bytes (p_opt p_n)) lr;
        t_eval = p_list (p_pair p_thunk (p_opt p_n)) ev;
        t_shape = p_list (p_pair p_n p_shape) sh;
        t_call = p_list (function L [v; bs; a] -> ((p_n v, p_list p_binding bs), p_opt p_n a) | _ -> bad "call") call;
        t_manifest = p_list (p_pair p_n (p_opt p_bytes)) man;
        t_target = p_list (p_pair p_bytes p_target) tgt;
        t_stdout = p_stdout so; t_bufcap = p_n cap }
  | _ -> bad "world"

let show_effect = function
  | FsNotCreated -> "N"
  | FsWrote (acc, ok) -> "W" ^ (if ok then "1" else "0") ^ ":" ^ hex_of_bytes acc

let show_result (r : result) : ostring =
  String.concat "\t" [
    hex_of_n r.r_exit; "x" ^ hex_of_bytes r.r_stdout; (if r.r_stderr then "1" else "0");
    String.concat ";" (List.map (fun (p, e) -> "x" ^ hex_of_bytes p ^ "=" ^ show_effect e) r.r_files) ]

let show_thunk = function ThStr b -> "S" ^ hex_of_bytes b | ThLoaded i -> "L" ^ hex_of_n i

let handle (fields : ostring list) : ostring =
  match fields with
  | ["run"; mode; case] ->
      (match parse case with
       | [cfg; world] ->
           let rc = p_cfg cfg and t = p_world world in
           let r = match mode with
             | "cur" -> run_tab rc t
             | "f0" -> run_gen_tab false rc t
             | "f1" -> run_gen_tab true rc t
             | _ -> bad "mode" in
           show_result r
       | _ -> bad "case")
  | ["flushes"] -> if cODE_FLUSHES then "1" else "0"
  | ["bind"; case] ->
      (* (params named): which binding each parameter gets *)
      (match parse case with
       | [ps; named] ->
           (match bind_tla (p_list (p_pair p_bytes p_bool) ps) (p_list (p_pair p_bytes p_thunk) named) with
            | Ok bs -> "OK " ^ String.concat "," (List.map (function BDefault -> "D" | BArg t -> show_thunk t) bs)
            | Err UnknownCallParam -> "ERR UnknownCallParam"
            | Err RepeatedCallParam -> "ERR RepeatedCallParam"
            | Err CallParamNotBound -> "ERR CallParamNotBound"
            | Panic s -> "PANIC " ^ string_of_coq s
            | OutOfFuel -> "FUEL")
       | _ -> bad "bind case")
  | _ -> bad "request"
