(* comp_import.ml — glue for the import/session component (C13).

   case kinds (first field):
     run    <priv;fuel>  <cwd names>  <tree>  <progs>  <jpaths>  <main>
            cwd    = list of names, each "=<cps>", ';' separated
            tree   = entries '|' separated:  F:<names>:<readable 0|1>:<bytes>
                                             D:<names>:<searchable 0|1>:
                                             L:<names>::<target cps>
            progs  = entries '|' separated:  <tree index hex>:<tag cps>:<strict exprs>:<item exprs>
                     exprs ';' separated: i<cps> (import) s<cps> (importstr) b<cps> (importbin)
                                          t (std.thisFile) l<cps> (literal)
            jpaths = list of "=<cps>", ';' separated, in command-line order
            main   = cps
     runv   <priv;fuel> <cwd> <tree> <progs> <jpaths> <repr cps> <data bytes> <tag:strict:items>
            the root is a virtual source (-e / stdin / --ext-code / --tla-code): display name, text, program
       -> OK <value> T=<eval tags> L=<log>      value: s<cps> | b<bytes> | [v v ...]
          ERR IMPORT <why> <importer cps> <pos> <path cps> T=.. L=..
          ERR INFREC .. | ERR MAIN <why> .. | FUEL .. | PANIC <site> ..
     parent <cps>          -> N | S<cps>
     join   <cps> <cps>    -> <cps>
     lossy  <bytes>        -> <cps>
     node   <priv> <cwd> <tree> <cps> -> F<bytes>|D|M|U|I  TAB canon cps *)
open Model
open Wire

let strs_of (s : ostring) : n list list =
  List.map (fun x ->
    if String.length x = 0 || x.[0] <> '=' then failwith ("import: bad string list element " ^ x)
    else list_n_of (String.sub x 1 (String.length x - 1)))
    (split_on ';' s)

let tail1 (s : ostring) = String.sub s 1 (String.length s - 1)

let parse_tree (s : ostring) : cfs =
  List.map (fun ent ->
    match String.split_on_char ':' ent with
    | [k; names; a; b] ->
        let ph = strs_of names in
        (match k with
         | "F" -> (ph, CFile (list_n_of b, a = "1"))
         | "D" -> (ph, CDir (a = "1"))
         | "L" -> (ph, CLink (list_n_of b))
         | _ -> failwith "import: bad tree entry kind")
    | _ -> failwith ("import: bad tree entry " ^ ent))
    (split_on '|' s)

let parse_expr (s : ostring) : iexpr =
  if s = "" then failwith "import: empty expr" else
  let r = list_n_of (tail1 s) in
  match s.[0] with
  | 'i' -> IImport r
  | 's' -> IImportStr r
  | 'b' -> IImportBin r
  | 't' -> IThisFile
  | 'l' -> ILit r
  | _ -> failwith ("import: bad expr " ^ s)

let parse_progs (tree : cfs) (s : ostring) : (n list * prog) list =
  List.map (fun ent ->
    match String.split_on_char ':' ent with
    | [idx; tag; strict; items] ->
        let bytes = (match snd (List.nth tree (int_of_string ("0x" ^ idx))) with
                     | CFile (b, _) -> b
                     | _ -> failwith "import: prog index is not a file") in
        (bytes, { p_tag = list_n_of tag;
                  p_strict = List.map parse_expr (split_on ';' strict);
                  p_items = List.map parse_expr (split_on ';' items) })
    | _ -> failwith ("import: bad prog entry " ^ ent))
    (split_on '|' s)

let rec show_value (v : value) : ostring = match v with
  | VStr s -> "s" ^ of_list_n s
  | VBytes b -> "b" ^ of_list_n b
  | VArr l -> "[" ^ String.concat " " (List.map show_value l) ^ "]"

let show_io = function IoNotFound -> "notfound" | IoIsDir -> "isdir" | IoPerm -> "perm" | IoOther -> "other"
let show_why = function
  | WNotFound -> "NOTFOUND" | WNoFile -> "NOFILE" | WCanon -> "CANON"
  | WRead e -> "READ-" ^ show_io e | WLoad -> "LOAD"

let show_event = function
  | EvRead p -> "r" ^ of_list_n p
  | EvLoaded (sid, cp, p) -> "l" ^ hex_of_n sid ^ ":" ^ of_list_n cp ^ ":" ^ of_list_n p
  | EvEval (sid, tag) -> "e" ^ hex_of_n sid ^ ":" ^ of_list_n tag
  | EvMsg (w, p) -> "m" ^ show_why w ^ ":" ^ of_list_n p

let show_run (st, r) =
  let log = List.rev st.s_log in
  let tags = List.filter_map (function EvEval (_, tag) -> Some ("=" ^ of_list_n tag) | _ -> None) log in
  let tail = "\tT=" ^ String.concat ";" tags ^ "\tL=" ^ String.concat ";" (List.map show_event log) in
  (match r with
   | Ok v -> "OK\t" ^ show_value v
   | Err (ImportFailed (w, imp, pos, p)) ->
       "ERR\tIMPORT\t" ^ show_why w ^ "\t" ^ of_list_n imp ^ "\t" ^ hex_of_n pos ^ "\t" ^ of_list_n p
   | Err (InfiniteRecursion sid) -> "ERR\tINFREC\t" ^ hex_of_n sid
   | Err (MainLoadFailed w) -> "ERR\tMAIN\t" ^ show_why w
   | Panic s -> "PANIC\t" ^ string_of_coq s
   | OutOfFuel -> "FUEL") ^ tail

let parse_opts opts = match String.split_on_char ';' opts with
  | [p; f] -> (p = "1", int_of_string ("0x" ^ f))
  | _ -> failwith "import: bad opts"

let handle (fields : ostring list) : ostring =
  match fields with
  | ["run"; opts; cwd; tree; progs; jpaths; main] ->
      let (priv, fuel) = parse_opts opts in
      let t = parse_tree tree in
      show_run (run_concrete t priv (strs_of cwd) (parse_progs t progs) (nat_of_int fuel)
                  (strs_of jpaths) (list_n_of main))
  | ["runv"; opts; cwd; tree; progs; jpaths; repr; data; vprog] ->
      let (priv, fuel) = parse_opts opts in
      let t = parse_tree tree in
      let d = list_n_of data in
      let vp = (match String.split_on_char ':' vprog with
        | [tag; strict; items] ->
            { p_tag = list_n_of tag; p_strict = List.map parse_expr (split_on ';' strict);
              p_items = List.map parse_expr (split_on ';' items) }
        | _ -> failwith "import: bad virtual prog") in
      show_run (run_concrete_virtual t priv (strs_of cwd) ((d, vp) :: parse_progs t progs) (nat_of_int fuel)
                  (strs_of jpaths) (list_n_of repr) d)
  | ["parent"; p] ->
      (match parent (list_n_of p) with None -> "N" | Some q -> "S" ^ of_list_n q)
  | ["join"; a; b] -> of_list_n (join (list_n_of a) (list_n_of b))
  | ["lossy"; b] -> of_list_n (lossy (list_n_of b))
  | ["node"; priv; cwd; tree; p] ->
      let t = parse_tree tree in
      let pr = (priv = "1") and cw = strs_of cwd and pp = list_n_of p in
      (match cnode t pr cw pp with
       | File b -> "F" ^ of_list_n b | Dir -> "D" | Missing -> "M" | Unreadable -> "U" | Inaccessible -> "I")
      ^ "\t" ^ of_list_n (ccanon t pr cw pp)
  | _ -> failwith "import: bad case"
