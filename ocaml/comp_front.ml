(* comp_front.ml — glue for the composed front end (Model/Front.v).
   case:   load <source bytes>       (nothing but the bytes is fed to the model)
   answer: the format of harness/src/comp/front.rs `load`:
     OK <TAB> <tokens> <TAB> <ast>
     ERR <TAB> LEX <TAB> <variant> <TAB> <start:end> <TAB> P=<payload>
     ERR <TAB> PARSE <TAB> <start:end> <TAB> <expected set, sorted> <TAB> <instead> <TAB> TOK=<tokens>
     ERR <TAB> ANALYZE <TAB> <variant> <TAB> <spans ';'> <TAB> <name or -> <TAB> TOK=<tokens> <TAB> AST=<ast>
     PANIC <TAB> <site>  |  FUEL
   TOK= / AST= are recomputed with Front.front_parse (same Coq functions). *)
open Model
open Wire

let lex_kind (k : lex_error_kind) : ostring * ostring =
  match k with
  | EInvalidChar c -> "InvalidChar", "chr=" ^ hex_of_n c
  | EInvalidUtf8 s -> "InvalidUtf8", "seq=" ^ of_list_n s
  | EUnfinishedMultilineComment -> "UnfinishedMultilineComment", "-"
  | ELeadingZeroInNumber -> "LeadingZeroInNumber", "-"
  | EMissingFracDigits -> "MissingFracDigits", "-"
  | EMissingExpDigits -> "MissingExpDigits", "-"
  | EMissingDigitAfterUnderscore -> "MissingDigitAfterUnderscore", "-"
  | EExpOverflow -> "ExpOverflow", "-"
  | EInvalidEscapeInString c -> "InvalidEscapeInString", "chr=" ^ hex_of_n c
  | EIncompleteUnicodeEscape -> "IncompleteUnicodeEscape", "-"
  | EInvalidUtf16EscapeSequence (a, b) ->
      "InvalidUtf16EscapeSequence", "cu=" ^ hex_of_n a ^ "," ^ (match b with Some x -> hex_of_n x | None -> "-")
  | EUnfinishedString -> "UnfinishedString", "-"
  | EMissingLineBreakAfterTextBlockStart -> "MissingLineBreakAfterTextBlockStart", "-"
  | EMissingWhitespaceTextBlockStart -> "MissingWhitespaceTextBlockStart", "-"
  | EInvalidTextBlockTermination -> "InvalidTextBlockTermination", "-"

let expected_name (x : expected) : ostring = match x with
  | XEndOfFile -> "EndOfFile"
  | XSimple k -> "S" ^ Tok_wire.of_stoken k
  | XIdent -> "Ident"
  | XNumber -> "Number"
  | XString -> "String"
  | XTextBlock -> "TextBlock"
  | XExpr -> "Expr"
  | XBinaryOp -> "BinaryOp"

let actual_name (a : actual) : ostring = match a with
  | AEndOfFile -> "EndOfFile"
  | ASimple k -> "S" ^ Tok_wire.of_stoken k
  | AOtherOp s -> "Op:" ^ Tok_wire.of_str s
  | AIdent s -> "Id:" ^ Tok_wire.of_str s
  | ANumber -> "Number"
  | AString -> "String"
  | ATextBlock -> "TextBlock"

let variant (e : analyze_error) : ostring = match e with
  | UnknownVariable _ -> "UnknownVariable"
  | SelfOutsideObject _ -> "SelfOutsideObject"
  | SuperOutsideObject _ -> "SuperOutsideObject"
  | DollarOutsideObject _ -> "DollarOutsideObject"
  | RepeatedLocalName _ -> "RepeatedLocalName"
  | RepeatedFieldName _ -> "RepeatedFieldName"
  | RepeatedParamName _ -> "RepeatedParamName"
  | PositionalArgAfterNamed _ -> "PositionalArgAfterNamed"
  | TextBlockAsImportPath _ -> "TextBlockAsImportPath"
  | ComputedImportPath _ -> "ComputedImportPath"

(* tokens and tree of the same bytes, through the same composed Coq function *)
let stages (bytes : n list) : ostring * ostring =
  match front_parse bytes with
  | Ok (toks, e) -> Tok_wire.of_tokens toks, Ast_wire.of_expr e
  | _ -> "?", "?"

let tokens_only (bytes : n list) : ostring =
  match lex_all false bytes with
  | Ok toks -> Tok_wire.of_tokens toks
  | _ -> "?"

let handle (fields : ostring list) : ostring =
  match fields with
  | ["load"; b] ->
      let bytes = list_n_of b in
      (match load_model bytes with
       | Ok _ ->
           let (t, a) = stages bytes in
           "OK\t" ^ t ^ "\t" ^ a
       | Err (FLex e) ->
           let (v, p) = lex_kind e.err_kind in
           "ERR\tLEX\t" ^ v ^ "\t" ^ Tok_wire.of_span e.err_span ^ "\tP=" ^ p
       | Err (FParse e) ->
           let ex = List.sort compare (List.map expected_name e.pe_expected) in
           "ERR\tPARSE\t" ^ Tok_wire.of_span e.pe_span ^ "\t" ^ String.concat "," ex ^ "\t"
           ^ actual_name e.pe_instead ^ "\tTOK=" ^ tokens_only bytes
       | Err (FAnalyze x) ->
           let spans = String.concat ";" (List.map Ast_wire.of_span (error_spans x)) in
           let name = match error_name x with Some nm -> Ast_wire.of_str nm | None -> "-" in
           let (t, a) = stages bytes in
           "ERR\tANALYZE\t" ^ variant x ^ "\t" ^ spans ^ "\t" ^ name ^ "\tTOK=" ^ t ^ "\tAST=" ^ a
       | Panic site -> "PANIC\t" ^ string_of_coq site
       | OutOfFuel -> "FUEL")
  | _ -> failwith "front: bad case"
