(* comp_tracelen.ml — glue for component "tracelen" (property C10).
   case kinds (first field):
     tl  <max> <init codes> <script>      script = codes:fail;codes:fail;...   (codes: 0 Other, 1 Delayed, n+2 Trace n)
         -> OK <len> <stack depth> <trace> | OVERFLOW <trace> | HERR <trace> | PANIC | UNFINISHED
     ds  <L> <fuel> <program>             program in the prefix syntax below
         -> OK <text code points> P=<peak> | ERR <kind> | FUEL | PANIC
   program := F <k> e*k L <m> e*m M e
   e := n<hex z> | l<hex i> | x | c<hex f> e | + e e | d e | z e e e | a<hex k> e*k | i<hex idx> e | = e e | < e e | s e *)
open Model
open Wire

let toks (s : ostring) = List.filter (fun x -> x <> "") (String.split_on_char ' ' s)

let rest (t : ostring) = String.sub t 1 (String.length t - 1)

let rec parse_e (ts : ostring list) : expr * ostring list =
  match ts with
  | [] -> failwith "ds: unexpected end"
  | t :: r ->
    (match t.[0] with
     | 'n' -> (ENum (z_of_hex (rest t)), r)
     | 'l' -> (ELoc (n_of_hex (rest t)), r)
     | 'x' -> (EArg, r)
     | 'c' -> let (a, r1) = parse_e r in (ECall (n_of_hex (rest t), a), r1)
     | '+' -> let (a, r1) = parse_e r in let (b, r2) = parse_e r1 in (EAdd (a, b), r2)
     | 'd' -> let (a, r1) = parse_e r in (EDec a, r1)
     | 'z' -> let (c, r1) = parse_e r in let (a, r2) = parse_e r1 in let (b, r3) = parse_e r2 in (EIfZ (c, a, b), r3)
     | 'a' -> let k = int_of_n (n_of_hex (rest t)) in let (es, r1) = parse_n k r in (EArr es, r1)
     | 'i' -> let (a, r1) = parse_e r in (EIdx (a, n_of_hex (rest t)), r1)
     | '=' -> let (a, r1) = parse_e r in let (b, r2) = parse_e r1 in (EEq (a, b), r2)
     | '<' -> let (a, r1) = parse_e r in let (b, r2) = parse_e r1 in (ELt (a, b), r2)
     | 's' -> let (a, r1) = parse_e r in (EStrLen a, r1)
     | _ -> failwith ("ds: bad token " ^ t))
and parse_n (k : int) (ts : ostring list) : expr list * ostring list =
  if k = 0 then ([], ts) else
    let (e, r) = parse_e ts in let (es, r2) = parse_n (k - 1) r in (e :: es, r2)

let parse_program (s : ostring) : program =
  match toks s with
  | "F" :: k :: r ->
      let (fs, r1) = parse_n (int_of_string ("0x" ^ k)) r in
      (match r1 with
       | "L" :: m :: r2 ->
           let (ls, r3) = parse_n (int_of_string ("0x" ^ m)) r2 in
           (match r3 with
            | "M" :: r4 -> let (e, r5) = parse_e r4 in
                if r5 <> [] then failwith "ds: trailing tokens";
                { funs = fs; locs = ls; main = e }
            | _ -> failwith "ds: M expected")
       | _ -> failwith "ds: L expected")
  | _ -> failwith "ds: F expected"

let handle (fields : ostring list) : ostring =
  match fields with
  | ["tl"; max; init; script] ->
      let acts = List.map (fun a ->
          match String.split_on_char ':' a with
          | [codes; f] -> (list_n_of codes, f = "1")
          | _ -> failwith "tl: bad action") (split_on ';' script) in
      (match observe (n_of_hex max) (list_n_of init) acts with
       | ObsOk (l, d, tr) -> "OK\t" ^ hex_of_n l ^ "\t" ^ hex_of_n d ^ "\t" ^ of_list_n tr
       | ObsOverflow tr -> "OVERFLOW\t" ^ of_list_n tr
       | ObsHandlerError tr -> "HERR\t" ^ of_list_n tr
       | ObsPanic -> "PANIC"
       | ObsUnfinished -> "UNFINISHED")
  | ["ds"; l; fuel; prog] ->
      let p = parse_program prog in
      (match top p (n_of_hex l) (nat_of_int (int_of_string ("0x" ^ fuel))) with
       | Ok (s, pk) -> "OK\t" ^ of_list_n s ^ "\tP=" ^ hex_of_n pk
       | Err StackOverflow0 -> "ERR\tStackOverflow"
       | Err InfiniteRecursion -> "ERR\tInfiniteRecursion"
       | Err TypeError -> "ERR\tTypeError"
       | Err BadProgram -> "ERR\tBadProgram"
       | Panic _ -> "PANIC"
       | OutOfFuel -> "FUEL")
  | _ -> failwith "tracelen: bad case"
