(* comp_lazycore.ml — glue for the lazy core calculus (Model/LazyCore.v).

   case fields:  <eval fuel hex> <manifest fuel hex> <program>
   program = prefix token stream, tokens separated by one space:
     n | t | f | i<hex z> | s<cps> | v<cps> | Z
     L <k> (<name> <expr>)^k <body>            local
     U <k> (<name> 0|1 [<expr>])^k <body>      function (1 = has default)
     C <callee> <k> <arg>^k                    call
     A <k> <expr>^k                            array
     X <a> <i>                                 index
     O <k> (<name> 0|1 <expr>)^k               object (1 = hidden)
     D <expr> <name>                           field access
     ? <c> <t> <e> | E <e> | + <a> <b> | = <a> <b> | R <msg> <e>
   names are comma separated hex code points.
   answer:  OK <json text> T=<messages>
          | ERR <Variant> <payload cps or -> T=<messages>
          | OOF <what> T=..   (outside the modelled fragment)
          | FUEL T=.. | PANIC <site>
   messages: each a comma separated code point list, joined by '/'. *)
open Model
open Wire

exception Bad of ostring

let parse_prog (s : ostring) : expr =
  let toks = ref (List.filter (fun x -> x <> "") (String.split_on_char ' ' s)) in
  let next () = match !toks with
    | t :: r -> toks := r; t
    | [] -> raise (Bad "unexpected end of program") in
  let rest t = String.sub t 1 (String.length t - 1) in
  let name () = list_n_of (next ()) in
  let count () = int_of_string ("0x" ^ next ()) in
  let rec times k f = if k <= 0 then [] else let x = f () in x :: times (k - 1) f in
  let rec ex () : expr =
    let t = next () in
    match t.[0] with
    | 'n' -> ENull
    | 't' -> EBool true
    | 'f' -> EBool false
    | 'i' -> ENum (z_of_hex (rest t))
    | 's' -> EStr (list_n_of (rest t))
    | 'v' -> EVar (list_n_of (rest t))
    | 'Z' -> ESelf
    | 'L' ->
        let k = count () in
        let bs = times k (fun () -> let x = name () in let e = ex () in (x, e)) in
        let body = ex () in
        ELocal (bs, body)
    | 'U' ->
        let k = count () in
        let ps = times k (fun () ->
          let x = name () in
          let has = next () in
          if has = "1" then (let d = ex () in (x, Some d)) else (x, None)) in
        let body = ex () in
        EFunc (ps, body)
    | 'C' ->
        let f = ex () in
        let k = count () in
        let args = times k ex in
        ECall (f, args)
    | 'A' -> let k = count () in EArr (times k ex)
    | 'X' -> let a = ex () in let i = ex () in EIndex (a, i)
    | 'O' ->
        let k = count () in
        EObj (times k (fun () ->
          let x = name () in
          let h = next () in
          let e = ex () in
          (x, (h = "1", e))))
    | 'D' -> let o = ex () in let f = name () in EField (o, f)
    | '?' -> let c = ex () in let a = ex () in let b = ex () in EIf (c, a, b)
    | 'E' -> EError (ex ())
    | '+' -> let a = ex () in let b = ex () in EAdd (a, b)
    | '=' -> let a = ex () in let b = ex () in EEq (a, b)
    | 'R' -> let m = ex () in let e = ex () in ETrace (m, e)
    | _ -> raise (Bad ("bad token " ^ t)) in
  let e = ex () in
  if !toks <> [] then raise (Bad "trailing tokens");
  e

let json_string (s : n list) : ostring =
  let b = Buffer.create 16 in
  Buffer.add_char b '"';
  List.iter (fun c ->
    let c = int_of_n c in
    if c >= 0x10000 then begin
      let v = c - 0x10000 in
      Buffer.add_string b (Printf.sprintf "\\u%04x\\u%04x" (0xd800 + (v lsr 10)) (0xdc00 + (v land 0x3ff)))
    end else if (c >= 48 && c <= 57) || (c >= 65 && c <= 90) || (c >= 97 && c <= 122) || c = 32 || c = 45 || c = 95 then
      Buffer.add_char b (Char.chr c)
    else Buffer.add_string b (Printf.sprintf "\\u%04x" c)) s;
  Buffer.add_char b '"';
  Buffer.contents b

(* decimal text of a Z (the model's own z_cps is used for strings; here only for output) *)
let rec dec_of_pos (p : positive) : ostring =
  (* via repeated division on a big decimal string: small numbers only (|z| <= 2^53) *)
  let rec to_float p = match p with XH -> 1.0 | XO q -> 2.0 *. to_float q | XI q -> 2.0 *. to_float q +. 1.0 in
  Printf.sprintf "%.0f" (to_float p)
let dec_of_z (x : z) : ostring = match x with
  | Z0 -> "0" | Zpos p -> dec_of_pos p | Zneg p -> "-" ^ dec_of_pos p

let rec json_text (j : json) : ostring = match j with
  | JNull -> "null"
  | JBool true -> "true"
  | JBool false -> "false"
  | JNum x -> dec_of_z x
  | JStr s -> json_string s
  | JFun -> "\"<function>\""
  | JArr l -> "[" ^ String.concat "," (List.map json_text l) ^ "]"
  | JObj l -> "{" ^ String.concat "," (List.map (fun (k, v) -> json_string k ^ ":" ^ json_text v) l) ^ "}"

let traces (t : str list) : ostring =
  "T=" ^ String.concat "/" (List.map of_list_n t)

let err_out (e : errk) : ostring * ostring = match e with
  | ExplicitError m -> ("ExplicitError", if m = [] then "" else of_list_n m)
  | UnknownObjectField f -> ("UnknownObjectField", of_list_n f)
  | FieldOfNonObject -> ("FieldOfNonObject", "-")
  | InvalidIndexedType -> ("InvalidIndexedType", "-")
  | ArrayIndexIsNotNumber -> ("ArrayIndexIsNotNumber", "-")
  | NumericIndexIsNotValid -> ("NumericIndexIsNotValid", "-")
  | NumericIndexOutOfRange -> ("NumericIndexOutOfRange", "-")
  | CondIsNotBool -> ("CondIsNotBool", "-")
  | InvalidBinaryOpTypes -> ("InvalidBinaryOpTypes", "-")
  | CalleeIsNotFunction -> ("CalleeIsNotFunction", "-")
  | TooManyCallArgs -> ("TooManyCallArgs", "-")
  | CallParamNotBound p -> ("CallParamNotBound", of_list_n p)
  | ManifestFunction -> ("ManifestFunction", "-")
  | CompareFunctions -> ("CompareFunctions", "-")
  | InvalidStdFuncArgType -> ("InvalidStdFuncArgType", "-")
  | NumberOverflow -> ("NumberOverflow", "-")
  | OutOfFragment w -> ("OOF", string_of_coq w)

let handle (fields : ostring list) : ostring =
  match fields with
  | [fe; fm; prog] ->
      let e = parse_prog prog in
      let fe = nat_of_int (int_of_string ("0x" ^ fe)) and fm = nat_of_int (int_of_string ("0x" ^ fm)) in
      let (t, o) = run fe fm e in
      (match o with
       | Ok j -> "OK\t" ^ json_text j ^ "\t" ^ traces t
       | Err (OutOfFragment w) -> "OOF\t" ^ string_of_coq w ^ "\t" ^ traces t
       | Err k -> let (v, p) = err_out k in "ERR\t" ^ v ^ "\t" ^ p ^ "\t" ^ traces t
       | Panic s -> "PANIC\t" ^ string_of_coq s
       | OutOfFuel -> "FUEL\t" ^ traces t)
  | _ -> failwith "lazycore: bad case"
