(* comp_numops.ml — glue for the numops component.
   case:   <op> TAB <args> TAB <libm result bits or "-"> [TAB <gates: "src" | "snapshot">]
   args:   ';' separated; each  n<bits hex> | a<bits,bits,...> | s<code points> | c<count hex>
   answer: OK <bits hex> | ERR <kind> | PANIC <site> *)
open Model
open Wire

let op_of_name (s : ostring) : numop = match s with
  | "add" -> OAdd | "sub" -> OSub | "mul" -> OMul | "div" -> ODiv | "rem" -> ORem
  | "shl" -> OShl | "shr" -> OShr | "and" -> OBitAnd | "or" -> OBitOr | "xor" -> OBitXor
  | "neg" -> ONeg | "pos" -> OPos | "not" -> OBitNot
  | "sum" -> BSum | "avg" -> BAvg | "pow" -> BPow | "exp" -> BExp | "log" -> BLog | "log2" -> BLog2
  | "log10" -> BLog10 | "sqrt" -> BSqrt | "sin" -> BSin | "cos" -> BCos | "tan" -> BTan
  | "asin" -> BAsin | "acos" -> BAcos | "atan" -> BAtan | "atan2" -> BAtan2 | "hypot" -> BHypot
  | "floor" -> BFloor | "ceil" -> BCeil | "round" -> BRound | "mod" -> BMod | "modulo" -> BModulo
  | "abs" -> BAbs | "sign" -> BSign | "max" -> BMax | "min" -> BMin | "clamp" -> BClamp
  | "mantissa" -> BMantissa | "exponent" -> BExponent | "deg2rad" -> BDeg2Rad | "rad2deg" -> BRad2Deg
  | "length" -> BLength | "codepoint" -> BCodepoint | "parseInt" -> BParseInt
  | "parseOctal" -> BParseOctal | "parseHex" -> BParseHex
  | _ -> failwith ("numops: unknown op " ^ s)

let rest (s : ostring) = String.sub s 1 (String.length s - 1)

let parse_arg (s : ostring) : arg =
  match s.[0] with
  | 'n' -> ANum (f_of_bits (n_of_hex (rest s)))
  | 'a' -> AArr (List.map f_of_bits (list_n_of (rest s)))
  | 's' -> AStr (list_n_of (rest s))
  | 'c' -> ACount (n_of_hex (rest s))
  | _ -> failwith ("numops: bad arg " ^ s)

let err_name (e : err) : ostring = match e with
  | ENumberOverflow -> "NumberOverflow" | ENumberNan -> "NumberNan" | EDivByZero -> "DivByZero"
  | EShiftByNegative -> "ShiftByNegative" | ENotBitwiseSafe -> "NumberNotBitwiseSafe"
  | EOther -> "Other" | EBadArgs -> "BADARGS"

let handle (fields : ostring list) : ostring =
  match fields with
  | op :: args :: libm :: more ->
      let op = op_of_name op in
      let args = List.map parse_arg (List.filter (fun s -> s <> "") (String.split_on_char ';' args)) in
      let l = const_libm (if libm = "-" then S754_nan else f_of_bits (n_of_hex libm)) in
      let g = match more with "snapshot" :: _ -> gates_snapshot | _ -> src_gates in
      (match eval_numop l g op args with
       | Ok v -> "OK\t" ^ hex_of_n (f_to_bits v)
       | Err e -> "ERR\t" ^ err_name e
       | Panic site -> "PANIC\t" ^ string_of_coq site
       | OutOfFuel -> "FUEL")
  | _ -> failwith "numops: bad case"
