(* main.ml — model driver: one case per line, "<id>\t<field>\t<field>..." ->
   "<id>\t<result>".  Compiled per component with that component's Comp. *)
let () =
  (try
    while true do
      let line = input_line stdin in
      if line <> "" then begin
        match String.split_on_char '\t' line with
        | id :: fields ->
            let res =
              try Comp.handle fields with
              | Stack_overflow -> "MODELEXC\tstack_overflow"
              | Out_of_memory -> "MODELEXC\tout_of_memory"
              | e -> "MODELEXC\t" ^ Printexc.to_string e in
            print_string id; print_char '\t'; print_string res; print_char '\n'
        | [] -> ()
      end
    done
  with End_of_file -> ());
  flush stdout
