(* wire.ml — shared glue between the line protocol and extracted Coq data.
   Compiled once per component against that component's extracted [Model]
   module (Base.Outcome.wire_anchor guarantees nat/positive/n/z/list/option/
   string are present in every extraction).  Integers travel as lower-case hex
   without prefix; lists are comma separated; strings are lists of code
   points. *)
type ostring = string   (* OCaml's string; [Model] shadows the name with Coq's *)
open Model

(* ---- positive / N / Z  <->  hex ---- *)
let hexval c = match c with
  | '0'..'9' -> Char.code c - 48
  | 'a'..'f' -> Char.code c - 87
  | 'A'..'F' -> Char.code c - 55
  | _ -> failwith ("wire: bad hex digit " ^ String.make 1 c)

(* bits, most significant first *)
let bits_of_hex (s : ostring) : bool list =
  let l = ref [] in
  String.iter (fun c ->
    let v = hexval c in
    l := ((v land 1) <> 0) :: ((v land 2) <> 0) :: ((v land 4) <> 0) :: ((v land 8) <> 0) :: !l) s;
  (* !l is least-significant first *)
  let rec strip = function false :: r -> strip r | x -> x in
  strip (List.rev !l)

let n_of_hex (s : ostring) : n =
  match bits_of_hex s with
  | [] -> N0
  | _ :: rest -> (* leading bit is 1 *)
      Npos (List.fold_left (fun p b -> if b then XI p else XO p) XH rest)

let rec bits_of_pos (p : positive) (acc : bool list) : bool list =
  (* returns bits most significant first *)
  match p with
  | XH -> true :: acc
  | XO q -> bits_of_pos q (false :: acc)
  | XI q -> bits_of_pos q (true :: acc)

let hex_of_bits (bits : bool list) : ostring =
  (* bits most significant first *)
  let n = List.length bits in
  let pad = (4 - n mod 4) mod 4 in
  let bits = List.init pad (fun _ -> false) @ bits in
  let buf = Buffer.create 16 in
  let rec go = function
    | a :: b :: c :: d :: r ->
        let v = (if a then 8 else 0) + (if b then 4 else 0) + (if c then 2 else 0) + (if d then 1 else 0) in
        Buffer.add_char buf "0123456789abcdef".[v]; go r
    | [] -> ()
    | _ -> assert false in
  go bits; Buffer.contents buf

let hex_of_pos (p : positive) : ostring = hex_of_bits (bits_of_pos p [])
let hex_of_n (x : n) : ostring = match x with N0 -> "0" | Npos p -> hex_of_pos p

let z_of_hex (s : ostring) : z =
  if String.length s > 0 && s.[0] = '-' then
    (match n_of_hex (String.sub s 1 (String.length s - 1)) with N0 -> Z0 | Npos p -> Zneg p)
  else (match n_of_hex s with N0 -> Z0 | Npos p -> Zpos p)
let hex_of_z (x : z) : ostring = match x with
  | Z0 -> "0" | Zpos p -> hex_of_pos p | Zneg p -> "-" ^ hex_of_pos p

(* ---- small ints ---- *)
let rec nat_of_int (i : int) : nat = if i <= 0 then O else S (nat_of_int (i - 1))
let int_of_nat (k : nat) : int =
  let rec go k acc = match k with O -> acc | S r -> go r (acc + 1) in go k 0
let int_of_pos (p : positive) : int =
  let rec go p = match p with XH -> 1 | XO q -> 2 * go q | XI q -> 2 * go q + 1 in go p
let int_of_n (x : n) : int = match x with N0 -> 0 | Npos p -> int_of_pos p
let n_of_int (i : int) : n = n_of_hex (Printf.sprintf "%x" i)

(* ---- lists ---- *)
let split_on (c : char) (s : ostring) : ostring list =
  if s = "" then [] else String.split_on_char c s
let list_n_of (s : ostring) : n list = List.map n_of_hex (split_on ',' s)
let of_list_n (l : n list) : ostring = String.concat "," (List.map hex_of_n l)

(* ---- Coq strings (panic sites) ---- *)
let string_of_coq (s : Model.string) : ostring =
  let buf = Buffer.create 32 in
  let rec go (s : Model.string) = match s with
    | EmptyString -> ()
    | String (Ascii (b0, b1, b2, b3, b4, b5, b6, b7), r) ->
        let bit b k = if b then 1 lsl k else 0 in
        Buffer.add_char buf (Char.chr (bit b0 0 + bit b1 1 + bit b2 2 + bit b3 3 + bit b4 4 + bit b5 5 + bit b6 6 + bit b7 7));
        go r in
  go s; Buffer.contents buf
