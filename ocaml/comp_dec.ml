(* comp_dec.ml — glue for the dec component.
   d2f   <digits hex> <exp hex>          -> <bits hex>
   lit   <text code points>              -> OK <digits hex> <exp hex> V <bits hex> | OK <digits> <exp> E <NumberOverflow|NumberNan> | ERR <lexer error>
   print <bits hex> <text code points>   -> 1 | 0
   short <bits hex> <digits hex> <exp hex> -> 1 | 0 *)
open Model
open Wire

let lit_err_name (e : lit_err) : ostring = match e with
  | LeadingZeroInNumber -> "LeadingZeroInNumber" | MissingFracDigits -> "MissingFracDigits"
  | MissingExpDigits -> "MissingExpDigits" | MissingDigitAfterUnderscore -> "MissingDigitAfterUnderscore"
  | ExpOverflow -> "ExpOverflow" | NotANumber -> "NotANumber" | Trailing -> "Trailing"

let b (x : bool) : ostring = if x then "1" else "0"

let handle (fields : ostring list) : ostring =
  match fields with
  | ["d2f"; d; e] -> hex_of_n (f_to_bits (dec_to_f64 (n_of_hex d) (z_of_hex e)))
  | ["lit"; text] ->
      (match lit_parse (list_n_of text) with
       | Ok (d, e) ->
           let head = "OK\t" ^ hex_of_n d ^ "\t" ^ hex_of_z e in
           (match literal_value d e with
            | Ok v -> head ^ "\tV\t" ^ hex_of_n (f_to_bits v)
            | Err LitNumberOverflow -> head ^ "\tE\tNumberOverflow"
            | Err LitNumberNan -> head ^ "\tE\tNumberNan"
            | _ -> head ^ "\tE\t?")
       | Err e -> "ERR\t" ^ lit_err_name e
       | _ -> "ERR\t?")
  | ["print"; bits; text] -> b (check_printed (f_of_bits (n_of_hex bits)) (list_n_of text))
  | ["short"; bits; d; e] -> b (shortest_check (f_of_bits (n_of_hex bits)) (n_of_hex d) (z_of_hex e))
  | _ -> failwith "dec: bad case"
