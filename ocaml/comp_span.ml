(* comp_span.ml — glue for the span component (same format as harness/src/comp/span.rs) *)
open Model
open Wire

let parse_op (s : ostring) : op =
  let k = s.[0] and rest = String.sub s 1 (String.length s - 1) in
  let nums = list_n_of rest in
  match k, nums with
  | 'c', [len] -> OpCtx len
  | 's', [c; a; b] -> OpSpan (c, a, b)
  | 'g', [i] -> OpGet i
  | _ -> failwith ("span: bad op " ^ s)

let show_obs (o : obs) : ostring = match o with
  | ObsCtx id -> "c" ^ hex_of_n id
  | ObsSpan (_, ((c, a), b)) -> "s" ^ of_list_n [c; a; b]
  | ObsTriple ((c, a), b) -> "t" ^ of_list_n [c; a; b]
  | ObsPanic -> "P"
  | ObsSkip -> "K"

let handle (fields : ostring list) : ostring =
  match fields with
  | [consts; ops] ->
      let cs = match list_n_of consts with
        | [b; m; l] -> { offset_bits = b; offset_mask = m; len_max = l }
        | _ -> failwith "span: bad consts" in
      let ops = List.map parse_op (List.filter (fun s -> s <> "") (String.split_on_char ';' ops)) in
      String.concat ";" (List.map show_obs (run cs init_st ops))
  | _ -> failwith "span: bad case"
