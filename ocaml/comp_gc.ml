(* comp_gc.ml — glue for the gc component (same op / observation format as
   harness/src/comp/gcheap.rs).
   field 0: ops separated by ';'
     a | v | e<a>,<b> | x<a>,<k> | h<a> | w<a> | V<a> | H<a> | g
   answer: observations separated by ';'
     n<id> | + | - | g<ids in objs order> | F<site> *)
open Model
open Wire

let parse_op (s : ostring) : op =
  let k = s.[0] and rest = String.sub s 1 (String.length s - 1) in
  let nums = list_n_of rest in
  match k, nums with
  | 'a', [] -> OAlloc
  | 'v', [] -> OAllocView
  | 'e', [a; b] -> OAddEdge (a, b)
  | 'x', [a; k] -> ODelEdge (a, k)
  | 'h', [a] -> ODropHandle a
  | 'w', [a] -> ODropView a
  | 'V', [a] -> OTakeView a
  | 'H', [a] -> OTakeHandle a
  | 'g', [] -> OGc
  | _ -> failwith ("gc: bad op " ^ s)

let show_obs (o : obs) : ostring = match o with
  | ObsNew i -> "n" ^ hex_of_n i
  | ObsDone -> "+"
  | ObsSkip -> "-"
  | ObsGc order -> "g" ^ of_list_n order
  | ObsFail site -> "F" ^ string_of_coq site

let handle (fields : ostring list) : ostring =
  match fields with
  | ops :: _ ->
      let ops = List.map parse_op (List.filter (fun s -> s <> "") (String.split_on_char ';' ops)) in
      String.concat ";" (List.map show_obs (run_ops init_st ops))
  | _ -> failwith "gc: bad case"
