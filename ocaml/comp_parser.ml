(* comp_parser.ml — glue for the parser component.
   case:  parse <fuel multiplier hex> <token dump>   ->  OK <ast> D=<depth> | ERR <span> <expected,..> <instead> | PANIC <site> | FUEL
   case:  rt <fuel multiplier hex> <ast dump> <min|red> ->  SAME | DIFF <ast> | NOTWP | ERR .. | PANIC .. | FUEL
   case:  minimal <ast dump>                          ->  <ast dump with the minimal Paren nodes inserted>
   Spellings are those of harness/src/comp/front.rs. *)
open Model
open Wire

let expected_name (x : expected) : ostring = match x with
  | XEndOfFile -> "EndOfFile"
  | XSimple k -> "S" ^ Tok_wire.of_stoken k
  | XIdent -> "Ident"
  | XNumber -> "Number"
  | XString -> "String"
  | XTextBlock -> "TextBlock"
  | XExpr -> "Expr"
  | XBinaryOp -> "BinaryOp"

let actual_name (a : actual) : ostring = match a with
  | AEndOfFile -> "EndOfFile"
  | ASimple k -> "S" ^ Tok_wire.of_stoken k
  | AOtherOp s -> "Op:" ^ Tok_wire.of_str s
  | AIdent s -> "Id:" ^ Tok_wire.of_str s
  | ANumber -> "Number"
  | AString -> "String"
  | ATextBlock -> "TextBlock"

let show_err (e : parse_error) : ostring =
  let ex = List.sort compare (List.map expected_name e.pe_expected) in
  "ERR\t" ^ Tok_wire.of_span e.pe_span ^ "\t" ^ String.concat "," ex ^ "\t" ^ actual_name e.pe_instead

let nat_of_hex (w : ostring) : nat = nat_of_int (int_of_n (n_of_hex w))

let handle (fields : ostring list) : ostring =
  match fields with
  | ["parse"; mult; toks] ->
      let toks = Tok_wire.tokens_of toks in
      let fuel = default_fuel (nat_of_hex mult) toks in
      (match parse_fuel src_prec fuel toks with
       | Ok (e, d) -> "OK\t" ^ Ast_wire.of_expr e ^ "\tD=" ^ hex_of_n d
       | Err e -> show_err e
       | Panic site -> "PANIC\t" ^ string_of_coq site
       | OutOfFuel -> "FUEL")
  | ["rt"; mult; ast; mode] ->
      (* print the tree with the Coq printer, re-parse it with the model parser *)
      let e = strip_spans (Ast_wire.ast_of ast) in
      if not (wp e) then "NOTWP" else
      let printed = if mode = "red" then full_paren e else e in
      let toks = print_tokens printed in
      let fuel = default_fuel (nat_of_hex mult) toks in
      (match parse_fuel src_prec fuel toks with
       | Ok (e', _) ->
           let same = if mode = "red" then strip_paren e' = strip_paren e else e' = e in
           if same then "SAME" else "DIFF\t" ^ Ast_wire.of_expr e'
       | Err er -> show_err er
       | Panic site -> "PANIC\t" ^ string_of_coq site
       | OutOfFuel -> "FUEL")
  | ["minimal"; ast] ->
      (* minimal parenthesisation of an arbitrary tree (spans erased) *)
      Ast_wire.of_expr (parenthesize (strip_spans (Ast_wire.ast_of ast)))
  | _ -> failwith "parser: bad case"
