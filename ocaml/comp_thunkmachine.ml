(* comp_thunkmachine.ml — glue for the thunk machine (property C11).
   case "M": restore(0|1)  cells  guards  requests   -> shared outcomes TAB fresh outcomes
     cells    ';'-separated  <owner>:<state>   state = d<v> | i | p<expr>
              expr = prefix tokens separated by '.' :  c.<n> | f.<m> | r.<id> | a.<e>.<e>
     guards   ';'-separated  <layers>:<checked>   layers = '|'-separated (base first), a layer =
              ','-separated assertions, each - (passes) | <m> (fails with message g<m>)
     requests ';'-separated  e<limit>:<id> | m<limit>:<id> | g
     outcome  v<n> | s<digit code points> | g | Eu<m> | Ea<m> | Ei | Eo | P | F
   case "I": interned strings ('/'-separated, each a code point list)
             object fields ('/'-separated <name index>:<payload>)  later strings  probe string
             -> lookup before growth, lookup after growth, reference lookup  (each - or payload) *)
open Model
open Wire

let split c s = if s = "" then [] else String.split_on_char c s

let rec parse_expr (toks : ostring list) : expr * ostring list =
  match toks with
  | "c" :: n :: r -> (EConst (n_of_hex n), r)
  | "f" :: m :: r -> (EFail (n_of_hex m), r)
  | "r" :: i :: r -> (EForce (n_of_hex i), r)
  | "a" :: r -> let (a, r1) = parse_expr r in let (b, r2) = parse_expr r1 in (EAdd (a, b), r2)
  | _ -> failwith "thunkmachine: bad expr"

let parse_cell (s : ostring) : cell =
  match String.index_opt s ':' with
  | None -> failwith "thunkmachine: bad cell"
  | Some k ->
      let ow = n_of_hex (String.sub s 0 k) in
      let stt = String.sub s (k + 1) (String.length s - k - 1) in
      let body = String.sub stt 1 (String.length stt - 1) in
      let state = match stt.[0] with
        | 'd' -> Done (n_of_hex body)
        | 'i' -> InProgress
        | 'p' -> (match parse_expr (split '.' body) with (e, []) -> Pending e | _ -> failwith "thunkmachine: trailing tokens")
        | _ -> failwith "thunkmachine: bad state" in
      { owner = ow; st = state }

let parse_guard (s : ostring) : guard =
  match String.split_on_char ':' s with
  | [ls; k] ->
      let layer l = List.map (fun c -> if c = "-" then None else Some (n_of_hex c)) (split ',' l) in
      { layers = List.map layer (String.split_on_char '|' ls); checked = (k = "1") }
  | _ -> failwith "thunkmachine: bad guard"

let parse_req (s : ostring) : req =
  if s = "g" then Gc else
  let body = String.sub s 1 (String.length s - 1) in
  match split ':' body with
  | [l; i] ->
      let lim = int_of_n (n_of_hex l) in
      if lim > 100000 then failwith "thunkmachine: limit too large for a nat";
      let lim = nat_of_int lim in
      (match s.[0] with
       | 'e' -> Eval (lim, n_of_hex i)
       | 'm' -> Manifest (lim, n_of_hex i)
       | _ -> failwith "thunkmachine: bad request")
  | _ -> failwith "thunkmachine: bad request"

let show_resp (r : resp) : ostring = match r with
  | RVal v -> "v" ^ hex_of_n v
  | RStr d -> "s" ^ of_list_n d
  | RGc -> "g"
  | RErr (EUser m) -> "Eu" ^ hex_of_n m
  | RErr (EAssert m) -> "Ea" ^ hex_of_n m
  | RErr EInfRec -> "Ei"
  | RErr EOverflow -> "Eo"
  | RPanic -> "P"
  | RFuel -> "F"

let show_opt = function None -> "-" | Some v -> hex_of_n v

let handle (fields : ostring list) : ostring =
  match fields with
  | ["M"; restore; cells; guards; reqs] ->
      let restore = (restore = "1") in
      let s = { cells = List.map parse_cell (split ';' cells); guards = List.map parse_guard (split ';' guards) } in
      let rs = List.map parse_req (split ';' reqs) in
      let shared = run_shared restore s rs in
      let fresh = List.map (fun r -> run_fresh restore s r) rs in
      String.concat ";" (List.map show_resp shared) ^ "\t" ^ String.concat ";" (List.map show_resp fresh)
  | ["I"; strs; fields; later; probe] ->
      let it = intern_all [] (List.map list_n_of (split '/' strs)) in
      let o = List.map (fun f -> match split ':' f with
        | [n; v] -> (n_of_hex n, n_of_hex v) | _ -> failwith "thunkmachine: bad field") (split '/' fields) in
      let it2 = intern_all it (List.map list_n_of (split '/' later)) in
      let p = list_n_of probe in
      show_opt (lookup it o p) ^ "\t" ^ show_opt (lookup it2 o p) ^ "\t" ^ show_opt (lookup_ref it o p)
  | _ -> failwith "thunkmachine: bad case"
