(* comp_compare.ml — glue for the equality/ordering model (component "compare").

   case fields:  <ops, comma separated>  <tree a>  <tree b>
   answer:       one result per op, ';' separated

   tree (tokens separated by one space, prefix notation):
     n | t | f | F                    null, true, false, a function
     d<hex 64-bit pattern>            number
     s<code points, hex, ','>         string ("s" = empty)
     a<count hex> v1 .. vn            array
     o<count hex> <assert> f1 v1 ..   object; <assert> = "-" (asserts hold) | "A<cps>" (fail with message) | "A-" (fail, no message)
                                      field fi = <d|h|v><name cps>   (default, hidden, forced visible)
     x<cps>                           a thunk failing with `error "<msg>"`
     y<tag hex>                       a thunk failing with another error (tag chosen by the generator)
   result:  B0 | B1 | I-1 | I0 | I1 | E:<variant>[:<detail>] | P:<site> | FUEL *)
open Model
open Wire

let rest (s : ostring) : ostring = String.sub s 1 (String.length s - 1)

let parse_tree (src : ostring) : lval =
  let toks = ref (List.filter (fun t -> t <> "") (String.split_on_char ' ' src)) in
  let next () = match !toks with
    | t :: r -> toks := r; t
    | [] -> failwith "compare: tree ends early" in
  let rec value () : lval =
    let t = next () in
    match t.[0] with
    | 'n' -> LNull
    | 't' -> LBool true
    | 'f' -> LBool false
    | 'F' -> LFun
    | 'd' -> LNum (f_of_bits (n_of_hex (rest t)))
    | 's' -> LStr (list_n_of (rest t))
    | 'x' -> LFail (EUser (list_n_of (rest t)))
    | 'y' -> LFail (EOther (n_of_hex (rest t)))
    | 'a' ->
        let n = int_of_n (n_of_hex (rest t)) in
        let rec items k = if k = 0 then [] else let v = value () in v :: items (k - 1) in
        LArr (items n)
    | 'o' ->
        let n = int_of_n (n_of_hex (rest t)) in
        let a = next () in
        let asrt =
          if a = "-" then None
          else if a = "A-" then Some (EAssert None)
          else if a.[0] = 'A' then Some (EAssert (Some (list_n_of (rest a))))
          else failwith ("compare: bad assert token " ^ a) in
        let rec fields k =
          if k = 0 then [] else begin
            let ft = next () in
            let vis = match ft.[0] with
              | 'd' -> VDefault | 'h' -> VHidden | 'v' -> VForce
              | _ -> failwith ("compare: bad field token " ^ ft) in
            let name = list_n_of (rest ft) in
            let v = value () in
            ((name, vis), v) :: fields (k - 1)
          end in
        LObj (asrt, fields n)
    | _ -> failwith ("compare: bad token " ^ t) in
  let v = value () in
  if !toks <> [] then failwith "compare: trailing tokens";
  v

let parse_op (s : ostring) : op = match s with
  | "eq" -> OpEq | "ne" -> OpNe | "lt" -> OpLt | "le" -> OpLe | "gt" -> OpGt | "ge" -> OpGe
  | "equals" -> OpStdEquals | "compare" -> OpStdCompare | "compare_array" -> OpStdCompareArray
  | "primitive_equals" -> OpStdPrimitiveEquals
  | _ -> failwith ("compare: bad op " ^ s)

let show_ty (t : vty) : ostring = match t with
  | TyNull -> "Null" | TyBool -> "Bool" | TyNumber -> "Number" | TyString -> "String"
  | TyArray -> "Array" | TyObject -> "Object" | TyFunction -> "Function"

let show_err (e : err) : ostring = match e with
  | EUser m -> "E:ExplicitError:" ^ of_list_n m
  | EAssert (Some m) -> "E:AssertFailed:" ^ of_list_n m
  | EAssert None -> "E:AssertFailed:-"
  | EOther t -> "E:Other:" ^ hex_of_n t
  | ECompareFunctions -> "E:CompareFunctions"
  | ECompareNull -> "E:CompareNullInequality"
  | ECompareBool -> "E:CompareBooleanInequality"
  | ECompareObject -> "E:CompareObjectInequality"
  | ECompareDifferentTypes (l, r) -> "E:CompareDifferentTypesInequality:" ^ show_ty l ^ ":" ^ show_ty r
  | EPrimEqNonPrimitive t -> "E:PrimitiveEqualsNonPrimitive:" ^ show_ty t
  | EInvalidArg (i, t) -> "E:InvalidStdFuncArgType:" ^ hex_of_n i ^ ":" ^ show_ty t

let show_res (r : (res, err) outcome) : ostring = match r with
  | Ok (RBool true) -> "B1"
  | Ok (RBool false) -> "B0"
  | Ok (RInt z) -> "I" ^ hex_of_z z
  | Err e -> show_err e
  | Panic s -> "P:" ^ string_of_coq s
  | OutOfFuel -> "FUEL"

let handle (fields : ostring list) : ostring =
  match fields with
  | [ops; ta; tb] ->
      let a = parse_tree ta and b = parse_tree tb in
      String.concat ";" (List.map (fun o -> show_res (run_op (parse_op o) a b)) (split_on ',' ops))
  | ["utf8"; s] -> of_list_n (utf8 (list_n_of s))
  | _ -> failwith "compare: bad case"
