(* comp_objects.ml — glue for the objects component.

   case fields:  [ <object expression> ; <names to query, space separated> ]
   expression (tokens separated by one space, prefix form):
     expr  := "L" <k> field*k <j> assert*j | "P" expr expr | "R" expr name | "M" z expr | "N" expr | "G" expr expr
     field := name ("d"|"h"|"v") ("0"|"1") body
     assert:= ("-" | <message number, hex>) body        (assert (body) != 0 : "m<number>")
     body  := "n" z | "u" | "s" name | "p" name | "i" name | "a" body body
     name  := code points in hex joined by '.', "-" for the empty name
   answer: observations "key=value" joined by ';' (see [handle]). *)
open Model
open Wire

let name_of (s : ostring) : name =
  if s = "-" then [] else List.map n_of_hex (String.split_on_char '.' s)
let show_name (n : name) : ostring =
  if n = [] then "-" else String.concat "." (List.map hex_of_n n)

exception Bad of ostring

let parse_expr (toks : ostring list) : oexpr =
  let rest = ref toks in
  let next () = match !rest with
    | t :: r -> rest := r; t
    | [] -> raise (Bad "unexpected end") in
  let rec body () : body = match next () with
    | "n" -> BNum (z_of_hex (next ()))
    | "u" -> BNull
    | "s" -> BSelf (name_of (next ()))
    | "p" -> BSuper (name_of (next ()))
    | "i" -> BInSuper (name_of (next ()))
    | "a" -> let x = body () in let y = body () in BAdd (x, y)
    | t -> raise (Bad ("body " ^ t)) in
  let field () : name * field =
    let nm = name_of (next ()) in
    let v = match next () with "d" -> Default | "h" -> Hidden | "v" -> ForceVisible | t -> raise (Bad ("vis " ^ t)) in
    let plus = match next () with "0" -> false | "1" -> true | t -> raise (Bad ("plus " ^ t)) in
    let b = body () in
    (nm, Normal { f_vis = v; f_plus = plus; f_body = b }) in
  let rec expr () : oexpr = match next () with
    | "L" ->
        let k = int_of_string (next ()) in
        let rec go i acc = if i = 0 then List.rev acc else go (i - 1) (field () :: acc) in
        let fs = go k [] in
        let j = int_of_string (next ()) in
        let asrt () : assertion =
          let m = (match next () with "-" -> None | t -> Some (n_of_hex t)) in
          let b = body () in
          { a_cond = b; a_msg = m } in
        let rec goa i acc = if i = 0 then List.rev acc else goa (i - 1) (asrt () :: acc) in
        OLit (fs, goa j [])
    | "P" -> let a = expr () in let b = expr () in OPlus (a, b)
    | "R" -> let e = expr () in let nm = name_of (next ()) in ORemove (e, nm)
    | "M" -> let c = z_of_hex (next ()) in let e = expr () in OMapKey (c, e)
    | "N" -> OPrune (expr ())
    | "G" -> let t = expr () in let p = expr () in OMergePatch (t, p)
    | t -> raise (Bad ("expr " ^ t)) in
  let e = expr () in
  if !rest <> [] then raise (Bad "trailing tokens");
  e

let show_err (e : everr) : ostring = match e with
  | EUnknownField -> "UnknownObjectField"
  | ENoSuper -> "SuperWithoutSuperObject"
  | EInfinite -> "InfiniteRecursion"
  | EBadAdd -> "InvalidBinaryOpTypes"
  | EAssert None -> "AssertFailed:-"
  | EAssert (Some m) -> "AssertFailed:m" ^ hex_of_n m

let show_value (v : value) : ostring = match v with
  | VNum z -> "v" ^ hex_of_z z
  | VNull -> "null"

(* outcomes that are not answers of the program (panic sites, fuel) are shown as such and
   never compare equal to an implementation answer *)
let show_res (f : 'a -> ostring) (r : ('a, everr) outcome) : ostring = match r with
  | Ok a -> f a
  | Err e -> "E" ^ show_err e
  | Panic s -> "MODELPANIC:" ^ string_of_coq s
  | OutOfFuel -> "MODELFUEL"

let bit b = if b then "1" else "0"

let handle (fields : ostring list) : ostring =
  match fields with
  | [etext; names] ->
      let e = parse_expr (List.filter (fun s -> s <> "") (String.split_on_char ' ' etext)) in
      let names = List.map name_of (List.filter (fun s -> s <> "") (String.split_on_char ' ' names)) in
      (match build e with
       | Ok o ->
           let per f = String.concat "," (List.map f names) in
           String.concat ";" [
             "B=ok";
             "nl=" ^ string_of_int (List.length (layers o));
             "len=" ^ hex_of_n (obj_length o);
             "in=" ^ per (fun nm -> show_res bit (has_field o N0 nm));
             "has=" ^ per (fun nm -> show_res bit (has_visible_field o nm));
             "fields=" ^ String.concat "," (List.map show_name (get_visible_fields_order o));
             "fieldsall=" ^ String.concat "," (List.map (fun (nm, _) -> show_name nm) (get_fields_order o));
             "val=" ^ per (fun nm -> show_res show_value (index_field o nm));
             "man=" ^ show_res (fun l -> String.concat "," (List.map (fun (nm, v) -> show_name nm ^ ":" ^ show_value v) l)) (manifest_checked o);
           ]
       | r -> "B=" ^ show_res (fun _ -> "ok") r)
  | _ -> failwith "objects: bad case"
