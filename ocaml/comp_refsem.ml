(* comp_refsem.ml - C02: run the reference interpreter on an AST dump.
   fields: [ options fuel=HEX;limit=HEX;bfs=0|1;tst=0|1 ; AST S-expression of front parse ]
   answer: OK TAB json TAB T=trace messages (code points, slash separated)
         | ERR TAB variant TAB user message code points or - TAB T=...
         | STATIC TAB variant        (the analyzer of the implementation rejects such programs)
         | UNSUPPORTED TAB what      (outside the modelled fragment: skipped and counted)
         | FUEL | PANIC TAB site
   json (space separated tokens): N | T | F | #bitsHEX | dquote followed by code points
         | [ items ] | { key value ... } | FUNC *)
open Model
open Wire

let opt (o : ostring) (k : ostring) (dflt : ostring) : ostring =
  let rec go = function
    | [] -> dflt
    | kv :: r -> (match String.index_opt kv '=' with
        | Some i when String.sub kv 0 i = k -> String.sub kv (i + 1) (String.length kv - i - 1)
        | _ -> go r) in
  go (String.split_on_char ';' o)

let rec json_out (b : Buffer.t) (j : json) : unit =
  match j with
  | JNull -> Buffer.add_string b "N"
  | JBool true -> Buffer.add_string b "T"
  | JBool false -> Buffer.add_string b "F"
  | JNum f -> Buffer.add_char b '#'; Buffer.add_string b (hex_of_n (f_to_bits f))
  | JStr s -> Buffer.add_char b '"'; Buffer.add_string b (of_list_n s)
  | JArr items ->
      Buffer.add_string b "[";
      List.iter (fun x -> Buffer.add_char b ' '; json_out b x) items;
      Buffer.add_string b " ]"
  | JObj fields ->
      Buffer.add_string b "{";
      List.iter (fun (k, v) -> Buffer.add_string b " \""; Buffer.add_string b (of_list_n k);
                  Buffer.add_char b ' '; json_out b v) fields;
      Buffer.add_string b " }"
  | JFunc -> Buffer.add_string b "FUNC"

let traces (t : n list list) : ostring = "T=" ^ String.concat "/" (List.map of_list_n t)

let handle (fields : ostring list) : ostring =
  match fields with
  | [o; ast] ->
      let fuel = nat_of_int (int_of_string ("0x" ^ opt o "fuel" "1000")) in
      let c = { c_limit = n_of_hex (opt o "limit" "c8"); c_bfs = (opt o "bfs" "0" = "1"); c_ts_tail = (opt o "tst" "0" = "1") } in
      let e = Ast_wire.ast_of ast in
      let (t, r) = run fuel c e in
      (match r with
       | Ok j -> let b = Buffer.create 256 in json_out b j; "OK\t" ^ Buffer.contents b ^ "\t" ^ traces t
       | Err EStackOverflow -> "ERR\tStackOverflow\t-\t" ^ traces t
       | Err (EExplicit m) -> "ERR\tExplicitError\t" ^ (if m = [] then "" else of_list_n m) ^ "\t" ^ traces t
       | Err (EAssertFailed None) -> "ERR\tAssertFailed\t-\t" ^ traces t
       | Err (EAssertFailed (Some m)) -> "ERR\tAssertFailed\t" ^ (if m = [] then "" else of_list_n m) ^ "\t" ^ traces t
       | Err (EKind v) -> "ERR\t" ^ string_of_coq v ^ "\t-\t" ^ traces t
       | Err (EStatic v) -> "STATIC\t" ^ string_of_coq v
       | Err (EUnsupported w) -> "UNSUPPORTED\t" ^ of_list_n w
       | Panic s -> "PANIC\t" ^ string_of_coq s
       | OutOfFuel -> "FUEL")
  | _ -> failwith "refsem: bad case"
