(* sexp.ml — minimal S-expression reader (atoms separated by blanks, parens) *)
type sx = A of string | L of sx list

let parse (s : string) : sx list =
  let n = String.length s in
  let pos = ref 0 in
  let rec skip () = if !pos < n && (s.[!pos] = ' ' || s.[!pos] = '\n') then (incr pos; skip ()) in
  let rec items (acc : sx list) : sx list =
    skip ();
    if !pos >= n then List.rev acc
    else if s.[!pos] = ')' then List.rev acc
    else if s.[!pos] = '(' then begin
      incr pos;
      let l = items [] in
      skip ();
      if !pos < n && s.[!pos] = ')' then incr pos else failwith "sexp: missing )";
      items (L l :: acc)
    end else begin
      let st = !pos in
      while !pos < n && s.[!pos] <> ' ' && s.[!pos] <> '(' && s.[!pos] <> ')' && s.[!pos] <> '\n' do incr pos done;
      items (A (String.sub s st (!pos - st)) :: acc)
    end in
  let r = items [] in
  if !pos < n then failwith "sexp: unbalanced )";
  r

let parse1 (s : string) : sx = match parse s with [x] -> x | _ -> failwith "sexp: expected one expression"
