(* comp_analyze.ml — glue for the analyzer model.
   case:   <top-level names, ';' separated, each a list of code points> TAB <AST S-expression>
   answer: OK <TAB> N=<nums_ok 0|1> <TAB> n=<node count>
         | ERR <TAB> <variant> <TAB> <spans ';' (repeated first, then original)> <TAB> <name cps or -> <TAB> N=..
         | PANIC <TAB> <site> <TAB> N=.. *)
open Model
open Wire

let variant (e : analyze_error) : ostring = match e with
  | UnknownVariable _ -> "UnknownVariable"
  | SelfOutsideObject _ -> "SelfOutsideObject"
  | SuperOutsideObject _ -> "SuperOutsideObject"
  | DollarOutsideObject _ -> "DollarOutsideObject"
  | RepeatedLocalName _ -> "RepeatedLocalName"
  | RepeatedFieldName _ -> "RepeatedFieldName"
  | RepeatedParamName _ -> "RepeatedParamName"
  | PositionalArgAfterNamed _ -> "PositionalArgAfterNamed"
  | TextBlockAsImportPath _ -> "TextBlockAsImportPath"
  | ComputedImportPath _ -> "ComputedImportPath"

let handle (fields : ostring list) : ostring =
  match fields with
  | [names; ast] ->
      let vs = List.map Ast_wire.str_of (split_on ';' names) in
      let e = Ast_wire.ast_of ast in
      let nflag = "N=" ^ (if nums_ok e then "1" else "0") in
      (match analyze e vs with
       | Ok _ -> "OK\t" ^ nflag ^ "\tn=" ^ string_of_int (List.length (nodes e))
       | Err x ->
           let spans = String.concat ";" (List.map Ast_wire.of_span (error_spans x)) in
           let name = match error_name x with Some n -> Ast_wire.of_str n | None -> "-" in
           "ERR\t" ^ variant x ^ "\t" ^ spans ^ "\t" ^ name ^ "\t" ^ nflag
       | Panic site -> "PANIC\t" ^ string_of_coq site ^ "\t" ^ nflag
       | OutOfFuel -> "FUEL")
  | _ -> failwith "analyze: bad case"
