(* ast_wire.ml — public AST <-> wire S-expressions (format of harness/src/astdump.rs) *)
open Model
open Wire
open Sexp

let str_of (w : ostring) : n list = if w = "-" then [] else list_n_of w
let of_str (l : n list) : ostring = if l = [] then "-" else of_list_n l
let span_of (w : ostring) : n * n =
  match String.split_on_char ':' w with
  | [a; b] -> (n_of_hex a, n_of_hex b)
  | _ -> failwith ("bad span " ^ w)
let of_span ((a, b) : n * n) : ostring = hex_of_n a ^ ":" ^ hex_of_n b
let bool_of (w : ostring) : bool = (w = "1")
let of_bool (b : bool) : ostring = if b then "1" else "0"

let binops : (ostring * binary_op) list = [
  "Add", BAdd; "Sub", BSub; "Mul", BMul; "Div", BDiv; "Rem", BRem; "Shl", BShl; "Shr", BShr; "Lt", BLt; "Le", BLe;
  "Gt", BGt; "Ge", BGe; "Eq", BEq; "Ne", BNe; "In", BIn; "BitwiseAnd", BBitwiseAnd; "BitwiseOr", BBitwiseOr;
  "BitwiseXor", BBitwiseXor; "LogicAnd", BLogicAnd; "LogicOr", BLogicOr ]
let unops : (ostring * unary_op) list = [ "Minus", UMinus; "Plus", UPlus; "BitwiseNot", UBitwiseNot; "LogicNot", ULogicNot ]
let viss : (ostring * visibility) list = [ "Default", VisDefault; "Hidden", VisHidden; "ForceVisible", VisForceVisible ]
let assoc_of tbl w = try List.assoc w tbl with Not_found -> failwith ("bad name " ^ w)
let name_of tbl v = fst (List.find (fun (_, v') -> v' = v) tbl)

let ident_of = function
  | L [A "Id"; A sp; A s] -> { id_value = str_of s; id_span = span_of sp }
  | _ -> failwith "bad ident"

let rec expr_of (x : sx) : expr =
  match x with
  | L [A "Null"; A sp] -> ENull (span_of sp)
  | L [A "Bool"; A sp; A b] -> EBool (span_of sp, bool_of b)
  | L [A "Self"; A sp] -> ESelf (span_of sp)
  | L [A "Dollar"; A sp] -> EDollar (span_of sp)
  | L [A "String"; A sp; A s] -> EString (span_of sp, str_of s)
  | L [A "TextBlock"; A sp; A s] -> ETextBlock (span_of sp, str_of s)
  | L [A "Number"; A sp; A d; A e] -> ENumber (span_of sp, { num_digits = str_of d; num_exp = z_of_hex e })
  | L [A "Paren"; A sp; e] -> EParen (span_of sp, expr_of e)
  | L [A "Object"; A sp; o] -> EObject (span_of sp, obj_of o)
  | L (A "Array" :: A sp :: items) -> EArray (span_of sp, List.map expr_of items)
  | L [A "ArrayComp"; A sp; e; L (A "Specs" :: cs)] -> EArrayComp (span_of sp, expr_of e, List.map spec_of cs)
  | L [A "Field"; A sp; e; i] -> EField (span_of sp, expr_of e, ident_of i)
  | L [A "Index"; A sp; e; i] -> EIndex (span_of sp, expr_of e, expr_of i)
  | L [A "Slice"; A sp; e; a; b; c] -> ESlice (span_of sp, expr_of e, opt_of a, opt_of b, opt_of c)
  | L [A "SuperField"; A sp; A ssp; i] -> ESuperField (span_of sp, span_of ssp, ident_of i)
  | L [A "SuperIndex"; A sp; A ssp; i] -> ESuperIndex (span_of sp, span_of ssp, expr_of i)
  | L [A "Call"; A sp; f; A ts; L (A "Args" :: args)] -> ECall (span_of sp, expr_of f, List.map arg_of args, bool_of ts)
  | L [A "Ident"; A sp; i] -> EIdent (span_of sp, ident_of i)
  | L [A "Local"; A sp; L (A "Binds" :: bs); body] -> ELocal (span_of sp, List.map bind_of bs, expr_of body)
  | L [A "If"; A sp; c; t; e] -> EIf (span_of sp, expr_of c, expr_of t, opt_of e)
  | L [A "Binary"; A sp; l; A op; r] -> EBinary (span_of sp, expr_of l, assoc_of binops op, expr_of r)
  | L [A "Unary"; A sp; A op; e] -> EUnary (span_of sp, assoc_of unops op, expr_of e)
  | L [A "ObjExt"; A sp; e; o; A osp] -> EObjExt (span_of sp, expr_of e, obj_of o, span_of osp)
  | L [A "Func"; A sp; L (A "Params" :: ps); body] -> EFunc (span_of sp, List.map param_of ps, expr_of body)
  | L [A "Assert"; A sp; a; body] -> EAssert (span_of sp, assert_of a, expr_of body)
  | L [A "Import"; A sp; e] -> EImport (span_of sp, expr_of e)
  | L [A "ImportStr"; A sp; e] -> EImportStr (span_of sp, expr_of e)
  | L [A "ImportBin"; A sp; e] -> EImportBin (span_of sp, expr_of e)
  | L [A "Error"; A sp; e] -> EError (span_of sp, expr_of e)
  | L [A "InSuper"; A sp; e; A ssp] -> EInSuper (span_of sp, expr_of e, span_of ssp)
  | _ -> failwith "bad expr"
and opt_of = function A "_" -> None | e -> Some (expr_of e)
and spec_of = function
  | L [A "For"; i; e] -> CFor (ident_of i, expr_of e)
  | L [A "IfSpec"; e] -> CIf (expr_of e)
  | _ -> failwith "bad comp spec"
and arg_of = function
  | L [A "Pos"; e] -> APositional (expr_of e)
  | L [A "Named"; i; e] -> ANamed (ident_of i, expr_of e)
  | _ -> failwith "bad arg"
and param_of = function
  | L [A "Param"; i; d] -> MkParam (ident_of i, opt_of d)
  | _ -> failwith "bad param"
and bind_of = function
  | L [A "Bind"; i; A "_"; e] -> MkBind (ident_of i, None, expr_of e)
  | L [A "Bind"; i; L [A "P"; A sp; L (A "Params" :: ps)]; e] -> MkBind (ident_of i, Some (List.map param_of ps, span_of sp), expr_of e)
  | _ -> failwith "bad bind"
and assert_of = function
  | L [A "A"; A sp; c; m] -> MkAssert (span_of sp, expr_of c, opt_of m)
  | _ -> failwith "bad assert"
and fname_of = function
  | L [A "FnIdent"; i] -> FnIdent (ident_of i)
  | L [A "FnString"; A s; A sp] -> FnString (str_of s, span_of sp)
  | L [A "FnExpr"; e; A sp] -> FnExpr (expr_of e, span_of sp)
  | _ -> failwith "bad field name"
and member_of = function
  | L [A "MLocal"; b] -> MLocal (bind_of b)
  | L [A "MAssert"; a] -> MAssert (assert_of a)
  | L [A "MField"; L [A "FValue"; n; A plus; A vis; e]] -> MField (FValue (fname_of n, bool_of plus, assoc_of viss vis, expr_of e))
  | L [A "MField"; L [A "FFunc"; n; L (A "Params" :: ps); A sp; A vis; e]] ->
      MField (FFunc (fname_of n, List.map param_of ps, span_of sp, assoc_of viss vis, expr_of e))
  | _ -> failwith "bad member"
and obj_of = function
  | L (A "Members" :: ms) -> OMembers (List.map member_of ms)
  | L [A "Comp"; L (A "Locals" :: l1); n; A plus; b; L (A "Locals" :: l2); L (A "Specs" :: cs)] ->
      OComp (List.map bind_of l1, expr_of n, bool_of plus, expr_of b, List.map bind_of l2, List.map spec_of cs)
  | _ -> failwith "bad obj inside"

let ast_of (w : ostring) : expr = expr_of (Sexp.parse1 w)

(* ---- printing, mirroring astdump.rs exactly ---- *)
let of_ident (i : ident) : ostring = "(Id " ^ of_span i.id_span ^ " " ^ of_str i.id_value ^ ")"
let cat (l : ostring list) : ostring = String.concat " " l
let of_num (nb : number) : ostring = of_str nb.num_digits ^ " " ^ hex_of_z nb.num_exp

let rec of_expr (e : expr) : ostring =
  match e with
  | ENull sp -> "(Null " ^ of_span sp ^ ")"
  | EBool (sp, b) -> "(Bool " ^ of_span sp ^ " " ^ of_bool b ^ ")"
  | ESelf sp -> "(Self " ^ of_span sp ^ ")"
  | EDollar sp -> "(Dollar " ^ of_span sp ^ ")"
  | EString (sp, s) -> "(String " ^ of_span sp ^ " " ^ of_str s ^ ")"
  | ETextBlock (sp, s) -> "(TextBlock " ^ of_span sp ^ " " ^ of_str s ^ ")"
  | ENumber (sp, nb) -> "(Number " ^ of_span sp ^ " " ^ of_num nb ^ ")"
  | EParen (sp, x) -> "(Paren " ^ of_span sp ^ " " ^ of_expr x ^ ")"
  | EObject (sp, o) -> "(Object " ^ of_span sp ^ " " ^ of_obj o ^ ")"
  | EArray (sp, items) -> "(Array " ^ of_span sp ^ " " ^ cat (List.map of_expr items) ^ ")"
  | EArrayComp (sp, x, cs) -> "(ArrayComp " ^ of_span sp ^ " " ^ of_expr x ^ " " ^ of_specs cs ^ ")"
  | EField (sp, x, i) -> "(Field " ^ of_span sp ^ " " ^ of_expr x ^ " " ^ of_ident i ^ ")"
  | EIndex (sp, x, i) -> "(Index " ^ of_span sp ^ " " ^ of_expr x ^ " " ^ of_expr i ^ ")"
  | ESlice (sp, x, a, b, c) -> "(Slice " ^ of_span sp ^ " " ^ of_expr x ^ " " ^ of_opt a ^ " " ^ of_opt b ^ " " ^ of_opt c ^ ")"
  | ESuperField (sp, ssp, i) -> "(SuperField " ^ of_span sp ^ " " ^ of_span ssp ^ " " ^ of_ident i ^ ")"
  | ESuperIndex (sp, ssp, i) -> "(SuperIndex " ^ of_span sp ^ " " ^ of_span ssp ^ " " ^ of_expr i ^ ")"
  | ECall (sp, f, args, ts) ->
      "(Call " ^ of_span sp ^ " " ^ of_expr f ^ " " ^ of_bool ts ^ " (Args " ^ cat (List.map of_arg args) ^ "))"
  | EIdent (sp, i) -> "(Ident " ^ of_span sp ^ " " ^ of_ident i ^ ")"
  | ELocal (sp, bs, body) -> "(Local " ^ of_span sp ^ " (Binds " ^ cat (List.map of_bind bs) ^ ") " ^ of_expr body ^ ")"
  | EIf (sp, c, t, f) -> "(If " ^ of_span sp ^ " " ^ of_expr c ^ " " ^ of_expr t ^ " " ^ of_opt f ^ ")"
  | EBinary (sp, l, op, r) -> "(Binary " ^ of_span sp ^ " " ^ of_expr l ^ " " ^ name_of binops op ^ " " ^ of_expr r ^ ")"
  | EUnary (sp, op, x) -> "(Unary " ^ of_span sp ^ " " ^ name_of unops op ^ " " ^ of_expr x ^ ")"
  | EObjExt (sp, x, o, osp) -> "(ObjExt " ^ of_span sp ^ " " ^ of_expr x ^ " " ^ of_obj o ^ " " ^ of_span osp ^ ")"
  | EFunc (sp, ps, body) -> "(Func " ^ of_span sp ^ " " ^ of_params ps ^ " " ^ of_expr body ^ ")"
  | EAssert (sp, a, body) -> "(Assert " ^ of_span sp ^ " " ^ of_assert a ^ " " ^ of_expr body ^ ")"
  | EImport (sp, x) -> "(Import " ^ of_span sp ^ " " ^ of_expr x ^ ")"
  | EImportStr (sp, x) -> "(ImportStr " ^ of_span sp ^ " " ^ of_expr x ^ ")"
  | EImportBin (sp, x) -> "(ImportBin " ^ of_span sp ^ " " ^ of_expr x ^ ")"
  | EError (sp, x) -> "(Error " ^ of_span sp ^ " " ^ of_expr x ^ ")"
  | EInSuper (sp, x, ssp) -> "(InSuper " ^ of_span sp ^ " " ^ of_expr x ^ " " ^ of_span ssp ^ ")"
and of_opt = function None -> "_" | Some e -> of_expr e
and of_specs cs =
  "(Specs " ^ cat (List.map (function
    | CFor (i, e) -> "(For " ^ of_ident i ^ " " ^ of_expr e ^ ")"
    | CIf e -> "(IfSpec " ^ of_expr e ^ ")") cs) ^ ")"
and of_arg = function
  | APositional e -> "(Pos " ^ of_expr e ^ ")"
  | ANamed (i, e) -> "(Named " ^ of_ident i ^ " " ^ of_expr e ^ ")"
and of_params ps =
  "(Params " ^ cat (List.map (fun (MkParam (i, d)) -> "(Param " ^ of_ident i ^ " " ^ of_opt d ^ ")") ps) ^ ")"
and of_bind (MkBind (i, ps, e)) =
  let p = match ps with None -> "_" | Some (ps, sp) -> "(P " ^ of_span sp ^ " " ^ of_params ps ^ ")" in
  "(Bind " ^ of_ident i ^ " " ^ p ^ " " ^ of_expr e ^ ")"
and of_assert (MkAssert (sp, c, m)) = "(A " ^ of_span sp ^ " " ^ of_expr c ^ " " ^ of_opt m ^ ")"
and of_fname = function
  | FnIdent i -> "(FnIdent " ^ of_ident i ^ ")"
  | FnString (s, sp) -> "(FnString " ^ of_str s ^ " " ^ of_span sp ^ ")"
  | FnExpr (e, sp) -> "(FnExpr " ^ of_expr e ^ " " ^ of_span sp ^ ")"
and of_obj = function
  | OMembers ms ->
      "(Members " ^ cat (List.map (function
        | MLocal b -> "(MLocal " ^ of_bind b ^ ")"
        | MAssert a -> "(MAssert " ^ of_assert a ^ ")"
        | MField (FValue (n, plus, vis, e)) ->
            "(MField (FValue " ^ of_fname n ^ " " ^ of_bool plus ^ " " ^ name_of viss vis ^ " " ^ of_expr e ^ "))"
        | MField (FFunc (n, ps, sp, vis, e)) ->
            "(MField (FFunc " ^ of_fname n ^ " " ^ of_params ps ^ " " ^ of_span sp ^ " " ^ name_of viss vis ^ " " ^ of_expr e ^ "))") ms) ^ ")"
  | OComp (l1, n, plus, b, l2, cs) ->
      "(Comp (Locals " ^ cat (List.map of_bind l1) ^ ") " ^ of_expr n ^ " " ^ of_bool plus ^ " " ^ of_expr b
      ^ " (Locals " ^ cat (List.map of_bind l2) ^ ") " ^ of_specs cs ^ ")"
